#!/venv/bin/python
"""Regenerate MANIFEST.json from the metadata in checks/cNN.py (keeps the manifest valid at all times)."""
import importlib
import json
import os
import sys

VERIF = os.path.dirname(os.path.dirname(os.path.abspath(__file__)))
sys.path[:0] = ["/repo", VERIF]
ALL = [f"C{n:02d}" for n in range(1, 21)]
PY = "/venv/bin/python"


def main():
    checks, na = [], []
    for pid in ALL:
        path = os.path.join(VERIF, "checks", f"{pid.lower()}.py")
        if not os.path.exists(path):
            na.append({"property_id": pid, "reason": "check not built yet in this session (work in progress; the "
                       "technique applies, see DESIGN.md section 3)"})
            continue
        mod = importlib.import_module(f"checks.{pid.lower()}")
        meta = mod.MANIFEST
        checks.append({
            "property_id": pid,
            "quick_cmd": f"cd /verif && {PY} run.py {pid} quick",
            "thorough_cmd": f"cd /verif && {PY} run.py {pid} thorough",
            "evidence_file": f"/verif/evidence/{pid}.json",
            "replay_cmd_template": f"cd /verif && {PY} run.py --replay {{path}}",
            "engine": meta.get("engine", "hypothesis"),
            "level_claimed": {"category": mod.LEVEL, "text": meta["text"], "design_ref": meta.get("design_ref", f"DESIGN.md 3 ({pid})")},
            "level_note": meta["note"],
            "technique": meta["technique"],
        })
    doc = {
        "version": 1,
        "setup_cmd": f"cd /verif && {PY} setup.py",
        "hooks": {
            "guard": "CISCO_ACL_VERIF",
            "enable": "no source hooks are needed: every observable is public API or the logging module; run.py exports CISCO_ACL_VERIF=1 for completeness and imports /repo's working tree first on sys.path",
            "baseline_off_cmd": "cd /repo && /venv/bin/python -m pytest -ra -q -p no:cacheprovider --timeout=900 --continue-on-collection-errors",
            "source_commits": [],
            "add_only": True,
        },
        "engines": [
            {"name": "hypothesis", "path": "/verif/lib/harness.py", "serves_properties": [c["property_id"] for c in checks],
             "kind_free_text": "property-based testing: Hypothesis strategies generate JSON cases (inputs, programs, op-list histories), a pure judge compares the library with an independent reference reader (lib/refsem.py); collect -> bucket -> structural minimiser -> replay file"},
        ],
        "checks": checks,
        "not_applicable": na,
        "notes": "All checks: cd /verif && /venv/bin/python run.py <Cxx> <quick|thorough>; VERIF_SEED honoured; exit 0/1/2 = held / VIOLATION / harness error. Known findings: /verif/KNOWN_FINDINGS.txt. Seeded breakers: /verif/seeded/.",
    }
    with open(os.path.join(VERIF, "MANIFEST.json"), "w") as fh:
        json.dump(doc, fh, indent=1)
        fh.write("\n")
    try:
        import jsonschema
        jsonschema.validate(doc, json.load(open("/root/.vp/MANIFEST.schema.json")))
        print("manifest valid;", len(checks), "checks,", len(na), "not_applicable")
    except ImportError:
        import subprocess
        code = ("import json,jsonschema;jsonschema.validate(json.load(open('/verif/MANIFEST.json')),"
                "json.load(open('/root/.vp/MANIFEST.schema.json')));print('manifest valid')")
        subprocess.run(["python3-vt", "-c", code], check=False)
        print(len(checks), "checks,", len(na), "not_applicable")


if __name__ == "__main__":
    main()
