#!/usr/bin/env python3
"""Final sensitivity pass: every seeded breaker against its own check (quick tier, committed checks), in a
scratch worktree. Writes /verif/seeded/RESULTS.json and /verif/seeded/SUMMARY.md.

    seeded_final.py [--only C03-A,...] [--extra C03=C11,C04  (additional checks for a property's breakers)]
"""
import argparse
import json
import os
import subprocess
import sys

VERIF = "/verif"


def main():
    ap = argparse.ArgumentParser()
    ap.add_argument("--only", default="")
    ap.add_argument("--summary-only", action="store_true")
    ap.add_argument("--seed", default="1")
    ap.add_argument("--results", default="RESULTS.json")
    args = ap.parse_args()
    path = os.path.join(VERIF, "seeded", args.results)
    results = json.load(open(path)) if os.path.exists(path) else {}
    names = sorted(d for d in os.listdir(os.path.join(VERIF, "seeded")) if os.path.isdir(os.path.join(VERIF, "seeded", d)))
    if args.only:
        names = [n for n in names if n in args.only.split(",")]
    if not args.summary_only:
        for name in names:
            pid = name.split("-")[0]
            d = os.path.join(VERIF, "seeded", name)
            r = subprocess.run([sys.executable, os.path.join(VERIF, "tools", "seeded_eval.py"), os.path.join(d, "patch.diff"),
                                os.path.join(d, "demo.py"), "--checks", pid, "--skip-suite", "--seed", args.seed],
                               capture_output=True, text=True)
            try:
                doc = json.loads(r.stdout)
                c = doc["checks"][pid]
                results[name] = {"check": pid, "rc": c["rc"], "buckets": c["buckets"][:5], "demo_with_change": doc["demo_with_change"]["rc"]}
            except Exception as ex:  # pylint: disable=broad-except
                results[name] = {"check": pid, "error": str(ex)[:200]}
            json.dump(results, open(path, "w"), indent=1, sort_keys=True)
            print(name, results[name].get("rc"), results[name].get("buckets", [])[:2], flush=True)
    # summary
    matrix = {}
    mp = os.path.join(VERIF, "seeded", "MATRIX.json")
    if os.path.exists(mp):
        matrix = json.load(open(mp))
    seed2 = {}
    sp = os.path.join(VERIF, "seeded", "RESULTS_seed2.json")
    if os.path.exists(sp):
        seed2 = json.load(open(sp))
    lines = ["# Seeded breakers: which checks catch which changes", "",
             "first = own check, quick tier, when the breaker was first tried; final / seed 2 = own check, quick tier, committed checks, VERIF_SEED 1 / 2;",
             "others = other checks (quick tier) that also report a VIOLATION on the breaker (from MATRIX.json, where run).", "",
             "| breaker | round | first | final | seed 2 | final buckets (first two) | other checks that fire |", "|---|---|---|---|---|---|---|"]
    for name in sorted(results):
        meta = json.load(open(os.path.join(VERIF, "seeded", name, "meta.json")))
        first = meta.get("own_check_quick_first_try", {}).get("rc")
        fin = results[name]
        others = sorted(k for k, val in (matrix.get(name) or {}).items() if val.get("rc") == 1 and k != fin["check"])
        word = {0: "missed", 1: "caught", 2: "harness error"}
        s2 = (seed2.get(name) or {}).get("rc")
        lines.append(f"| {name} | {meta.get('round', 1)} | {word.get(first, first)} | {word.get(fin.get('rc'), fin.get('rc'))} | {word.get(s2, '-')} | "
                     f"{', '.join(fin.get('buckets', [])[:2])} | {', '.join(others)} |")
    open(os.path.join(VERIF, "seeded", "SUMMARY.md"), "w").write("\n".join(lines) + "\n")
    caught = sum(1 for v in results.values() if v.get("rc") == 1)
    print(f"{caught}/{len(results)} caught by the own check")
    return 0


if __name__ == "__main__":
    sys.exit(main())
