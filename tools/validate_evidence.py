#!/opt/veriftools/pyvenv/bin/python
"""Validate every evidence file against the schema (run with python3-vt)."""
import glob, json, sys
import jsonschema
schema = json.load(open("/root/.vp/EVIDENCE.schema.json"))
bad = 0
for f in sorted(glob.glob("/verif/evidence/*.json")):
    try:
        jsonschema.validate(json.load(open(f)), schema)
    except Exception as ex:
        bad += 1
        print("INVALID", f, str(ex)[:300])
print("evidence files ok" if not bad else f"{bad} invalid")
sys.exit(1 if bad else 0)
