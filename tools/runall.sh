#!/bin/bash
# run every check's quick (or given) tier; print one line per check
tier=${1:-quick}
cd /verif
for n in $(seq -w 1 20); do
  out=$(/venv/bin/python run.py C$n $tier 2>&1); rc=$?
  echo "C$n rc=$rc $(echo "$out" | grep -c '^VIOLATION') violations, $(echo "$out" | grep -c '^KNOWN-FINDING') known :: $(echo "$out" | tail -1)"
  if [ $rc -ne 0 ]; then echo "$out" | grep -v '^KNOWN' | head -5; fi
done
