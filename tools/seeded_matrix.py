#!/usr/bin/env python3
"""Run every check (quick tier) against every seeded breaker, in a scratch COPY of /repo (VERIF_REPO), so that
/repo itself is never touched. Writes /verif/seeded/MATRIX.json incrementally.

    seeded_matrix.py [--only C03-A,C04-B] [--checks C01,C02] [--out FILE]
"""
import argparse
import json
import os
import re
import shutil
import subprocess
import sys
import tempfile

PY = "/venv/bin/python"
ALL = [f"C{n:02d}" for n in range(1, 21)]


def sh(cmd, **kw):
    return subprocess.run(cmd, shell=isinstance(cmd, str), capture_output=True, text=True, **kw)


def main():
    ap = argparse.ArgumentParser()
    ap.add_argument("--only", default="")
    ap.add_argument("--checks", default=",".join(ALL))
    ap.add_argument("--out", default="/verif/seeded/MATRIX.json")
    args = ap.parse_args()
    seeded = sorted(d for d in os.listdir("/verif/seeded") if os.path.isdir(f"/verif/seeded/{d}"))
    if args.only:
        seeded = [s for s in seeded if s in args.only.split(",")]
    checks = args.checks.split(",")
    result = json.load(open(args.out)) if os.path.exists(args.out) else {}
    os.makedirs("/root/scratch", exist_ok=True)
    for name in seeded:
        work = tempfile.mkdtemp(prefix=f"mut-{name}-", dir="/root/scratch")
        repo = os.path.join(work, "repo")
        try:
            sh(f"git -C /repo worktree add -q --detach {repo} HEAD")
            ap_ = sh(f"git -C {repo} apply /verif/seeded/{name}/patch.diff")
            if ap_.returncode:
                result[name] = {"error": "patch does not apply"}
                continue
            env = dict(os.environ, VERIF_REPO=repo, VERIF_REPLAY_OUT=os.path.join(work, "replays"),
                       VERIF_EVIDENCE_OUT=os.path.join(work, "ev"), VERIF_SEED="1")
            row = result.get(name, {})
            for pid in checks:
                r = sh([PY, "/verif/run.py", pid, "quick"], env=env, cwd="/verif")
                buckets = []
                for m in re.finditer(r"VIOLATION property=\S+ replay=(\S+)", r.stdout):
                    try:
                        buckets.append(json.load(open(m.group(1)))["bucket"])
                    except Exception:  # pylint: disable=broad-except
                        buckets.append("?")
                row[pid] = {"rc": r.returncode, "buckets": sorted(set(buckets))[:6]}
                result[name] = row
                json.dump(result, open(args.out, "w"), indent=1, sort_keys=True)
            print(name, {k: v["rc"] for k, v in row.items() if v["rc"]}, flush=True)
        finally:
            sh(f"git -C /repo worktree remove --force {repo}")
            shutil.rmtree(work, ignore_errors=True)
    return 0


if __name__ == "__main__":
    sys.exit(main())
