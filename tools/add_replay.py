#!/venv/bin/python
"""Store a regression case: add_replay.py <Cxx> <sub> <bucket> '<case json>' [detail]"""
import json, os, sys
VERIF = os.path.dirname(os.path.dirname(os.path.abspath(__file__)))
sys.path[:0] = ["/repo", VERIF]
from lib import harness
prop, sub, bucket, case = sys.argv[1], sys.argv[2], sys.argv[3], json.loads(sys.argv[4])
detail = sys.argv[5] if len(sys.argv) > 5 else "regression case kept from an earlier finding"
print(harness.write_replay(prop, sub, bucket, case, detail))
