#!/usr/bin/env python3
"""Confirm the breakers a round of sub-agents wrote and keep the confirmed ones under /verif/seeded.

    seeded_ingest.py <out_dir> <round> <letterA> <letterB> [--only C03,C07] [--jobs 3]

<out_dir>/Cxx/{A,B}.diff, {A,B}_demo.py, notes.md are what an agent left.  For each, tools/seeded_eval.py
(scratch worktree of /repo HEAD) confirms: the patch applies, the demo fails with it and passes without it,
the unedited suite gives the baseline result; and takes the own check's quick-tier first-try verdict.
Confirmed breakers are stored as /verif/seeded/Cxx-<letter>/ (patch.diff, demo.py, meta.json).
"""
import argparse
import json
import os
import re
import shutil
import subprocess
import sys
from concurrent.futures import ThreadPoolExecutor

VERIF = "/verif"
BASELINE = "1 failed, 327 passed"


def needs(notes, variant):
    """the 'needs to manifest' paragraph of the agent's notes for this variant, if it can be found"""
    try:
        text = open(notes).read()
    except OSError:
        return ""
    parts = re.split(r"\n#+ ", text)
    for p in parts:
        if re.match(rf"(Change )?{variant}\b", p.strip()):
            m = re.search(r"(?is)(needs?[^\n]*manifest.*?)(\n\s*\n|\n[*-] \*?\*?why)", p)
            return (m.group(1) if m else p[:600]).strip()[:900]
    return ""


def one(job):
    out_dir, pid, variant, letter, rnd = job
    d = os.path.join(out_dir, pid)
    patch, demo = os.path.join(d, f"{variant}.diff"), os.path.join(d, f"{variant}_demo.py")
    name = f"{pid}-{letter}"
    if not (os.path.exists(patch) and os.path.exists(demo)):
        return name, {"error": "files missing"}
    r = subprocess.run([sys.executable, os.path.join(VERIF, "tools", "seeded_eval.py"), patch, demo, "--checks", pid],
                       capture_output=True, text=True)
    try:
        doc = json.loads(r.stdout)
    except ValueError:
        return name, {"error": (r.stdout + r.stderr)[-300:]}
    if "error" in doc:
        return name, {"error": doc["error"]}
    ok = (doc["demo_with_change"]["rc"] == 1 and doc["demo_unchanged_repo"]["rc"] == 0
          and doc.get("suite_with_change", "").find(BASELINE) >= 0)
    res = {"confirmed": ok, "demo_with_change": doc["demo_with_change"], "demo_unchanged": doc["demo_unchanged_repo"],
           "suite": doc.get("suite_with_change"), "check": doc["checks"].get(pid)}
    if ok:
        dst = os.path.join(VERIF, "seeded", name)
        os.makedirs(dst, exist_ok=True)
        shutil.copy(patch, os.path.join(dst, "patch.diff"))
        shutil.copy(demo, os.path.join(dst, "demo.py"))
        c = doc["checks"].get(pid, {})
        meta = {"breaks_property": pid, "variant": letter, "round": rnd,
                "author": f"independent sub-agent, round {rnd} (given only the text of the property and its own scratch worktree)",
                "needs_to_manifest": needs(os.path.join(d, "notes.md"), variant),
                "confirmed": {"patch_applies_to_repo_head": True, "demo_exit_with_change": 1, "demo_exit_unchanged_repo": 0,
                              "existing_suite_with_change": doc.get("suite_with_change"),
                              "how": "tools/seeded_eval.py (scratch worktree of /repo HEAD)"},
                "own_check_quick_first_try": {"rc": c.get("rc"), "buckets": c.get("buckets", [])[:6]}}
        json.dump(meta, open(os.path.join(dst, "meta.json"), "w"), indent=1)
    return name, res


def main():
    ap = argparse.ArgumentParser()
    ap.add_argument("out_dir")
    ap.add_argument("round", type=int)
    ap.add_argument("letter_a")
    ap.add_argument("letter_b")
    ap.add_argument("--only", default="")
    ap.add_argument("--jobs", type=int, default=3)
    args = ap.parse_args()
    pids = sorted(p for p in os.listdir(args.out_dir) if re.fullmatch(r"C\d\d", p))
    if args.only:
        pids = [p for p in pids if p in args.only.split(",")]
    jobs = [(args.out_dir, p, v, l, args.round) for p in pids for v, l in (("A", args.letter_a), ("B", args.letter_b))]
    with ThreadPoolExecutor(args.jobs) as ex:
        for name, res in ex.map(one, jobs):
            c = res.get("check") or {}
            print(name, "confirmed" if res.get("confirmed") else "NOT-CONFIRMED", "own-check rc=%s" % c.get("rc"), c.get("buckets", [])[:3],
                  res.get("error", ""), flush=True)
            if not res.get("confirmed"):
                print("   ", json.dumps(res)[:600], flush=True)
    for p in pids:
        n = os.path.join(args.out_dir, p, "notes.md")
        if os.path.exists(n):
            shutil.copy(n, os.path.join(VERIF, "seeded", f"{p}-notes-round{args.round}.md"))


if __name__ == "__main__":
    main()
