#!/usr/bin/env python3
"""Try the registered checks against one seeded breaker WITHOUT touching /repo.

    seeded_eval.py <patch.diff> <demo.py> [--checks C01,C06,...] [--tier quick] [--seed 1] [--skip-suite]

A scratch git worktree of /repo's HEAD is created under /root/scratch, the patch is applied there, the demo
(must fail) and the unedited suite (must pass) are run against it, the checks are run with VERIF_REPO
pointing at it (replay / evidence output redirected into the scratch dir), and the worktree is removed.
The demo is also run against the unchanged /repo (must pass). Prints a JSON summary.
(The registered checks themselves always test /repo's working tree; VERIF_REPO is only for this tool.)
"""
import argparse
import json
import os
import re
import shutil
import subprocess
import sys
import tempfile

PY = "/venv/bin/python"


def sh(cmd, **kw):
    return subprocess.run(cmd, shell=isinstance(cmd, str), capture_output=True, text=True, **kw)


def main():
    ap = argparse.ArgumentParser()
    ap.add_argument("patch")
    ap.add_argument("demo")
    ap.add_argument("--checks", default="")
    ap.add_argument("--tier", default="quick")
    ap.add_argument("--seed", default="1")
    ap.add_argument("--skip-suite", action="store_true")
    args = ap.parse_args()
    patch, demo = os.path.abspath(args.patch), os.path.abspath(args.demo)
    out = {"patch": patch}
    os.makedirs("/root/scratch", exist_ok=True)
    work = tempfile.mkdtemp(prefix="seeded-eval-", dir="/root/scratch")
    repo = os.path.join(work, "repo")
    try:
        sh(f"git -C /repo worktree add -q --detach {repo} HEAD")
        ap_ = sh(f"git -C {repo} apply {patch}")
        if ap_.returncode:
            out["error"] = "patch does not apply: " + ap_.stderr[:300]
            print(json.dumps(out, indent=1))
            return 1
        env = dict(os.environ, PYTHONPATH=repo, PYTHONDONTWRITEBYTECODE="1")
        d = sh([PY, "-B", demo], env=env, cwd=work)
        out["demo_with_change"] = {"rc": d.returncode, "tail": (d.stdout + d.stderr)[-300:]}
        if not args.skip_suite:
            t = sh(f"cd {repo} && PYTHONPATH={repo} {PY} -m pytest -q -p no:cacheprovider 2>&1 | tail -1")
            out["suite_with_change"] = t.stdout.strip()
        results = {}
        env2 = dict(os.environ, VERIF_REPO=repo, VERIF_REPLAY_OUT=os.path.join(work, "replays"),
                    VERIF_EVIDENCE_OUT=os.path.join(work, "ev"), VERIF_SEED=args.seed)
        for pid in [c for c in args.checks.split(",") if c]:
            r = sh([PY, "/verif/run.py", pid, args.tier], env=env2, cwd="/verif")
            buckets = []
            for m in re.finditer(r"VIOLATION property=\S+ replay=(\S+)", r.stdout):
                try:
                    buckets.append(json.load(open(m.group(1)))["bucket"])
                except Exception:  # pylint: disable=broad-except
                    buckets.append("?")
            results[pid] = {"rc": r.returncode, "buckets": sorted(set(buckets)), "summary": r.stdout.strip().split("\n")[-1][-160:],
                            "stderr": r.stderr[-400:] if r.returncode == 2 else ""}
        out["checks"] = results
    finally:
        sh(f"git -C /repo worktree remove --force {repo}")
        shutil.rmtree(work, ignore_errors=True)
    env = dict(os.environ, PYTHONPATH="/repo", PYTHONDONTWRITEBYTECODE="1")
    d = sh([PY, "-B", demo], env=env)
    out["demo_unchanged_repo"] = {"rc": d.returncode, "tail": (d.stdout + d.stderr)[-200:]}
    print(json.dumps(out, indent=1))
    return 0


if __name__ == "__main__":
    sys.exit(main())
