#!/usr/bin/env python3
"""Try the registered checks against one seeded breaker.

    seeded_eval.py <patch.diff> <demo.py> [--checks C01,C06,...] [--tier quick] [--seed 1]

Applies the patch to /repo, confirms the demo fails and the unedited suite still passes, runs the checks
(replay and evidence output redirected to a scratch dir), reverts /repo and confirms the demo passes again.
Prints a JSON summary. /repo is always reverted, also on errors.
"""
import argparse
import json
import os
import re
import shutil
import subprocess
import sys
import tempfile

PY = "/venv/bin/python"


def sh(cmd, **kw):
    return subprocess.run(cmd, shell=isinstance(cmd, str), capture_output=True, text=True, **kw)


def main():
    ap = argparse.ArgumentParser()
    ap.add_argument("patch")
    ap.add_argument("demo")
    ap.add_argument("--checks", default="")
    ap.add_argument("--tier", default="quick")
    ap.add_argument("--seed", default="1")
    ap.add_argument("--skip-suite", action="store_true")
    args = ap.parse_args()
    out = {"patch": args.patch}
    if sh("git -C /repo status --porcelain").stdout.strip():
        print("refusing: /repo is not clean", file=sys.stderr)
        return 2
    chk = sh(f"git -C /repo apply --check {args.patch}")
    if chk.returncode:
        out["error"] = "patch does not apply: " + chk.stderr[:300]
        print(json.dumps(out, indent=1))
        return 1
    scratch = tempfile.mkdtemp(prefix="seeded-eval-")
    try:
        sh(f"git -C /repo apply {args.patch}")
        env = dict(os.environ, PYTHONPATH="/repo", PYTHONDONTWRITEBYTECODE="1")
        d = sh([PY, "-B", args.demo], env=env, cwd=scratch)
        out["demo_with_change"] = {"rc": d.returncode, "tail": (d.stdout + d.stderr)[-300:]}
        if not args.skip_suite:
            t = sh(f"cd /repo && {PY} -m pytest -q -p no:cacheprovider 2>&1 | tail -1")
            out["suite_with_change"] = t.stdout.strip()
        results = {}
        env2 = dict(os.environ, VERIF_REPLAY_OUT=os.path.join(scratch, "replays"), VERIF_EVIDENCE_OUT=os.path.join(scratch, "ev"),
                    VERIF_SEED=args.seed)
        for pid in [c for c in args.checks.split(",") if c]:
            r = sh([PY, "/verif/run.py", pid, args.tier], env=env2, cwd="/verif")
            buckets = []
            for m in re.finditer(r"VIOLATION property=\S+ replay=(\S+)", r.stdout):
                try:
                    buckets.append(json.load(open(m.group(1)))["bucket"])
                except Exception:  # pylint: disable=broad-except
                    buckets.append("?")
            results[pid] = {"rc": r.returncode, "buckets": buckets, "summary": r.stdout.strip().split("\n")[-1][-160:],
                            "stderr": r.stderr[-300:] if r.returncode == 2 else ""}
        out["checks"] = results
    finally:
        sh("git -C /repo checkout -- .")
        shutil.rmtree(scratch, ignore_errors=True)
    env = dict(os.environ, PYTHONPATH="/repo", PYTHONDONTWRITEBYTECODE="1")
    d = sh([PY, "-B", args.demo], env=env)
    out["demo_reverted"] = {"rc": d.returncode, "tail": (d.stdout + d.stderr)[-200:]}
    print(json.dumps(out, indent=1))
    return 0


if __name__ == "__main__":
    sys.exit(main())
