#!/venv/bin/python
"""Offline bootstrap: make hypothesis (and atheris, for the C20 thorough tier) importable.

Idempotent. Installs into /verif/.deps (git-ignored) from the offline wheelhouse only when the
interpreter that runs the checks (/venv/bin/python) cannot import the package already.
"""
import importlib
import os
import subprocess
import sys

VERIF = os.path.dirname(os.path.abspath(__file__))
DEPS = os.path.join(VERIF, ".deps")
WHEELS = "/opt/veriftools/wheels"


def have(name: str) -> bool:
    if os.path.isdir(DEPS) and DEPS not in sys.path:
        sys.path.append(DEPS)
    try:
        importlib.import_module(name)
        return True
    except Exception:  # pylint: disable=broad-except
        return False


def main() -> int:
    need = [p for p in ("hypothesis", "atheris") if not have(p)]
    rc = 0
    for pkg in need:
        cmd = [sys.executable, "-m", "pip", "install", "--quiet", "--no-index", "--find-links", WHEELS,
               "--target", DEPS, pkg]
        res = subprocess.run(cmd, check=False)
        importlib.invalidate_caches()
        if res.returncode != 0 or not have(pkg):
            print(f"setup: could not install {pkg} (only hypothesis is mandatory)", file=sys.stderr)
            if pkg == "hypothesis":
                rc = 1
    print("setup: ok" if rc == 0 else "setup: FAILED")
    return rc


if __name__ == "__main__":
    sys.exit(main())
