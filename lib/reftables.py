"""Frozen facts about Cisco ACL keywords (oracle for C09).

Numbers are the IANA assignments for the service / protocol the Cisco keyword stands for (Cisco IOS,
NX-OS and ASA command references, "access-list ... eq ?" help).  A keyword that is missing here is
*unknown to the oracle* (counted, never failed).  Membership facts are kept only where the vendor
documentation is unambiguous.
"""

# keyword -> TCP port
REF_TCP = {
    "aol": 5190, "bgp": 179, "chargen": 19, "cifs": 3020, "citrix-ica": 1494, "cmd": 514,
    "ctiqbe": 2748, "daytime": 13, "discard": 9, "domain": 53, "drip": 3949, "echo": 7, "exec": 512,
    "finger": 79, "ftp": 21, "ftp-data": 20, "gopher": 70, "h323": 1720, "hostname": 101,
    "http": 80, "https": 443, "ident": 113, "imap4": 143, "irc": 194, "kerberos": 750,
    "klogin": 543, "kshell": 544, "ldap": 389, "ldaps": 636, "login": 513, "lotusnotes": 1352,
    "lpd": 515, "msrpc": 135, "netbios-ssn": 139, "nfs": 2049, "nntp": 119, "onep-plain": 15001,
    "onep-tls": 15002, "pcanywhere-data": 5631, "pim-auto-rp": 496, "pop2": 109, "pop3": 110,
    "pptp": 1723, "rsh": 514, "rtsp": 554, "sip": 5060, "smtp": 25, "sqlnet": 1521, "ssh": 22,
    "sunrpc": 111, "syslog": 514, "tacacs": 49, "tacacs-ds": 65, "talk": 517, "telnet": 23,
    "time": 37, "uucp": 540, "whois": 43, "www": 80,
}
# keyword -> UDP port
REF_UDP = {
    "biff": 512, "bootpc": 68, "bootps": 67, "cifs": 3020, "discard": 9, "dnsix": 195,
    "domain": 53, "echo": 7, "http": 80, "isakmp": 500, "kerberos": 750, "mobile-ip": 434,
    "nameserver": 42, "netbios-dgm": 138, "netbios-ns": 137, "netbios-ss": 139, "nfs": 2049,
    "non500-isakmp": 4500, "ntp": 123, "pcanywhere-status": 5632, "pim-auto-rp": 496,
    "radius": 1645, "radius-acct": 1646, "rip": 520, "ripv6": 521, "secureid-udp": 5510,
    "sip": 5060, "snmp": 161, "snmptrap": 162, "sunrpc": 111, "syslog": 514, "tacacs": 49,
    "tacacs-ds": 65, "talk": 517, "tftp": 69, "time": 37, "vxlan": 4789, "who": 513, "www": 80,
    "xdmcp": 177,
}
# keyword -> IP protocol number (IANA)
REF_PROTO = {
    "ip": 0, "icmp": 1, "igmp": 2, "ggp": 3, "ipip": 4, "ipinip": 4, "tcp": 6, "egp": 8, "igrp": 9,
    "udp": 17, "ipv6": 41, "rsvp": 46, "gre": 47, "esp": 50, "ah": 51, "ahp": 51, "icmp6": 58,
    "icmpv6": 58, "eigrp": 88, "ospf": 89, "nos": 94, "pim": 103, "pcp": 108, "snp": 109,
    "vrrp": 112, "l2tp": 115, "sctp": 132,
}

# keywords every IOS and NX-OS release documents for "eq ?" (must be accepted on ios and nxos)
MUST_TCP_IOS_NXOS = (
    "bgp chargen cmd daytime discard domain echo exec finger ftp ftp-data gopher hostname ident irc "
    "klogin kshell login lpd nntp pim-auto-rp pop2 pop3 smtp sunrpc tacacs talk telnet time uucp "
    "whois www"
).split()
MUST_UDP_IOS_NXOS = (
    "biff bootpc bootps discard dnsix domain echo isakmp mobile-ip nameserver netbios-dgm netbios-ns "
    "netbios-ss non500-isakmp ntp pim-auto-rp rip snmp snmptrap sunrpc syslog tacacs talk tftp time "
    "who xdmcp"
).split()
# (platform, major-version predicate, protocol, keyword) that must NOT be accepted
MUST_NOT = [
    ("nxos", None, "tcp", "msrpc"), ("nxos", None, "tcp", "onep-plain"), ("nxos", None, "tcp", "onep-tls"),
    ("nxos", None, "tcp", "syslog"), ("nxos", None, "udp", "ripv6"),
    ("ios", 15, "tcp", "msrpc"), ("ios", 15, "tcp", "onep-plain"), ("ios", 15, "tcp", "onep-tls"),
    ("ios", 15, "udp", "ripv6"),
]
RESERVED_WORDS = {
    "eq", "neq", "lt", "gt", "range", "any", "host", "object-group", "addrgroup", "log", "log-input",
    "permit", "deny", "remark", "ack", "fin", "psh", "rst", "syn", "urg", "established",
}
