"""Independent reference reader of Cisco ACE / ACL / object-group text (oracle).

Shares no code with cisco_acl.  Addresses are integer (base, wildmask) pairs, ports and address
sets are sorted disjoint interval lists.  See DESIGN.md section 2.3 for the conventions.
"""
from __future__ import annotations

from dataclasses import dataclass, field
from typing import Callable, Dict, List, Optional, Sequence, Tuple

ALL1 = 0xFFFFFFFF
PORT_LO, PORT_HI = 1, 65535
OPERATORS = ("eq", "neq", "lt", "gt", "range")
ACTIONS = ("permit", "deny")
LOGS = ("log", "log-input")
TCP_FLAGS = ("ack", "fin", "psh", "rst", "syn", "urg")
FLAG_ALIASES = {"established": ("ack", "rst")}
IGNORABLE_PREFIXES = ("statistics ", "description ", "ignore ")
SEQ_MAX = 2**32 - 1


class RefError(Exception):
    """Text is outside the reference grammar, or (strict) not valid on the platform."""


# ----------------------------------------------------------------------------- integers / intervals
def ip2int(text: str) -> int:
    parts = text.split(".")
    if len(parts) != 4 or not all(p.isdigit() for p in parts):
        raise RefError(f"not an IPv4 address: {text!r}")
    vals = [int(p) for p in parts]
    if any(v > 255 for v in vals):
        raise RefError(f"octet out of range: {text!r}")
    return (vals[0] << 24) | (vals[1] << 16) | (vals[2] << 8) | vals[3]


def int2ip(value: int) -> str:
    return ".".join(str((value >> s) & 255) for s in (24, 16, 8, 0))


Intervals = Tuple[Tuple[int, int], ...]


def iv_norm(pairs) -> Intervals:
    out: List[List[int]] = []
    for lo, hi in sorted((lo, hi) for lo, hi in pairs if lo <= hi):
        if out and lo <= out[-1][1] + 1:
            out[-1][1] = max(out[-1][1], hi)
        else:
            out.append([lo, hi])
    return tuple((a, b) for a, b in out)


def iv_from_values(values) -> Intervals:
    return iv_norm((v, v) for v in values)


def iv_clip(ivs: Intervals, lo: int, hi: int) -> Intervals:
    return iv_norm((max(a, lo), min(b, hi)) for a, b in ivs)


def iv_complement(ivs: Intervals, lo: int, hi: int) -> Intervals:
    out, cur = [], lo
    for a, b in iv_clip(ivs, lo, hi):
        if a > cur:
            out.append((cur, a - 1))
        cur = b + 1
    if cur <= hi:
        out.append((cur, hi))
    return tuple(out)


def iv_subset(inner: Intervals, outer: Intervals) -> bool:
    j = 0
    for a, b in inner:
        while j < len(outer) and outer[j][1] < a:
            j += 1
        if j == len(outer) or not (outer[j][0] <= a and b <= outer[j][1]):
            return False
    return True


def iv_union(*many: Intervals) -> Intervals:
    return iv_norm(p for ivs in many for p in ivs)


def iv_size(ivs: Intervals) -> int:
    return sum(b - a + 1 for a, b in ivs)


def iv_values(ivs: Intervals):
    for a, b in ivs:
        yield from range(a, b + 1)


# ----------------------------------------------------------------------------- address pairs
Pair = Tuple[int, int]  # (base masked with ~wild, wild)


def mk_pair(base: int, wild: int) -> Pair:
    return (base & ~wild & ALL1, wild & ALL1)


def trailing_ones(wild: int) -> int:
    n = 0
    while wild >> n & 1:
        n += 1
    return n


def nc_bits(wild: int) -> List[int]:
    low = trailing_ones(wild)
    return [b for b in range(low, 32) if wild >> b & 1]


def is_contiguous(wild: int) -> bool:
    return (wild & (wild + 1)) == 0


def pair_contains(top: Pair, bottom: Pair) -> bool:
    """Every address of bottom is an address of top."""
    return (bottom[1] & ~top[1] & ALL1) == 0 and ((bottom[0] ^ top[0]) & ~top[1] & ALL1) == 0


def pair_matches(pair: Pair, address: int) -> bool:
    return ((address ^ pair[0]) & ~pair[1] & ALL1) == 0


def pair_prefixes(pair: Pair, k_guard: int = 18) -> List[Tuple[int, int]]:
    """Independent expansion into (network, prefixlen): 2^k prefixes of length 32 - trailing ones."""
    base, wild = pair
    low = trailing_ones(wild)
    bits = nc_bits(wild)
    if len(bits) > k_guard:
        raise RefError(f"too many non-contiguous bits for expansion: {len(bits)}")
    nets = []
    for mask in range(1 << len(bits)):
        addr = base
        for j, bit in enumerate(bits):
            if mask >> j & 1:
                addr |= 1 << bit
        nets.append((addr, 32 - low))
    return sorted(nets)


def pair_intervals(pair: Pair) -> Intervals:
    return iv_norm((n, n + (1 << (32 - l)) - 1) for n, l in pair_prefixes(pair))


def pairs_intervals(pairs: Sequence[Pair]) -> Intervals:
    return iv_union(*[pair_intervals(p) for p in pairs]) if pairs else tuple()


def pairs_subset(bottoms: Sequence[Pair], tops: Sequence[Pair]) -> bool:
    """Exact inclusion of unions (empty bottom is included in anything)."""
    if all(any(pair_contains(t, b) for t in tops) for b in bottoms):
        return True
    return iv_subset(pairs_intervals(bottoms), pairs_intervals(tops))


def pair_size(pair: Pair) -> int:
    return 1 << bin(pair[1]).count("1")


# ----------------------------------------------------------------------------- model
@dataclass(frozen=True)
class Addr:
    kind: str  # "pair" | "group"
    pair: Optional[Pair] = None
    name: str = ""
    members: Optional[Tuple[Pair, ...]] = None  # for groups: attached member networks (may be None)
    spelling: str = ""  # any | host | prefix | wild | group   (informational)

    def pairs(self) -> Tuple[Pair, ...]:
        if self.kind == "pair":
            return (self.pair,)  # type: ignore
        return tuple(self.members or ())

    def meaning(self):
        if self.kind == "pair":
            return ("pair", self.pair)
        return ("group", self.name, tuple(self.members or ()))


@dataclass(frozen=True)
class PortSpec:
    op: str
    operands: Tuple[int, ...]
    ivs: Intervals


@dataclass(frozen=True)
class Rule:
    seq: int
    action: str
    proto: int
    src: Addr
    dst: Addr
    sport: Optional[PortSpec]
    dport: Optional[PortSpec]
    options: Tuple[str, ...] = ()  # all option tokens in order
    standard: bool = False

    @property
    def logs(self) -> Tuple[str, ...]:
        return tuple(t for t in self.options if t in LOGS)

    @property
    def nonlog(self) -> Tuple[str, ...]:
        return tuple(t for t in self.options if t not in LOGS)

    @property
    def flagset(self) -> Optional[frozenset]:
        """None = no flag condition; else set of TCP flags of which at least one must be set."""
        out = set()
        for tok in self.nonlog:
            if tok in TCP_FLAGS:
                out.add(tok)
            elif tok in FLAG_ALIASES:
                out.update(FLAG_ALIASES[tok])
            else:
                raise RefError(f"opaque option {tok!r} has no packet semantics in the oracle")
        return frozenset(out) if out else None

    def meaning(self, with_opaque: bool = True):
        sp = self.sport.ivs if self.sport else None
        dp = self.dport.ivs if self.dport else None
        return (self.action, self.proto, self.src.meaning(), self.dst.meaning(), sp, dp,
                frozenset(self.nonlog) if with_opaque else self.flagset, self.logs)


@dataclass(frozen=True)
class RemarkLine:
    seq: int
    text: str


def rule_is_empty(rule: Rule) -> bool:
    if rule.sport is not None and not rule.sport.ivs:
        return True
    if rule.dport is not None and not rule.dport.ivs:
        return True
    if not rule.src.pairs() or not rule.dst.pairs():
        return True
    return False


def rule_subset(bottom: Rule, top: Rule) -> bool:
    """Every packet matched by bottom is matched by top (actions are not compared)."""
    if rule_is_empty(bottom):
        return True
    if not (top.proto == 0 or top.proto == bottom.proto):
        return False
    if not pairs_subset(bottom.src.pairs(), top.src.pairs()):
        return False
    if not pairs_subset(bottom.dst.pairs(), top.dst.pairs()):
        return False
    for side in ("sport", "dport"):
        tps, bps = getattr(top, side), getattr(bottom, side)
        if tps is None:
            continue
        if bps is None:  # bottom: any port (incl. whatever lies outside 1..65535)
            return False
        if not iv_subset(bps.ivs, tps.ivs):
            return False
    tf, bf = top.flagset, bottom.flagset
    if tf is not None:
        if bf is None or not bf <= tf:
            return False
    return True


def port_universe_ambiguous(bottom: Rule, top: Rule) -> bool:
    """top has a port condition covering all of 1..65535 while bottom has none."""
    for side in ("sport", "dport"):
        tps, bps = getattr(top, side), getattr(bottom, side)
        if tps is not None and bps is None and iv_size(tps.ivs) == PORT_HI - PORT_LO + 1:
            return True
    return False


def rule_matches(rule: Rule, packet) -> bool:
    proto, src, dst, sport, dport, flags = packet
    if not (rule.proto == 0 or rule.proto == proto):
        return False
    if not any(pair_matches(p, src) for p in rule.src.pairs()):
        return False
    if not any(pair_matches(p, dst) for p in rule.dst.pairs()):
        return False
    for spec, value in ((rule.sport, sport), (rule.dport, dport)):
        if spec is not None:
            if proto not in (6, 17) or value is None:
                return False
            if not any(a <= value <= b for a, b in spec.ivs):
                return False
    fs = rule.flagset
    if fs is not None:
        if proto != 6 or not (set(flags) & fs):
            return False
    return True


def first_match(rules: Sequence[Rule], packet) -> Optional[str]:
    for rule in rules:
        if rule_matches(rule, packet):
            return rule.action
    return None


# ----------------------------------------------------------------------------- reading
Names = Callable[[int], Dict[str, int]]  # protocol number -> {port name: number}


def _read_addr(tok: List[str], i: int, platform: str, strict: bool):
    if i >= len(tok):
        raise RefError("address expected")
    t = tok[i]
    if t == "any":
        return Addr("pair", mk_pair(0, ALL1), spelling="any"), i + 1
    if t == "host":
        if i + 1 >= len(tok):
            raise RefError("host address expected")
        return Addr("pair", mk_pair(ip2int(tok[i + 1]), 0), spelling="host"), i + 2
    if t in ("object-group", "addrgroup"):
        if i + 1 >= len(tok):
            raise RefError("group name expected")
        if strict and t != ("object-group" if platform == "ios" else "addrgroup"):
            raise RefError(f"invalid-on-{platform}: {t}")
        return Addr("group", None, name=tok[i + 1], spelling="group"), i + 2
    if "/" in t:
        a, _, ln = t.partition("/")
        if not ln.isdigit() or int(ln) > 32:
            raise RefError(f"bad prefix length {t!r}")
        if strict and platform == "ios":
            raise RefError("invalid-on-ios: prefix notation")
        wild = (1 << (32 - int(ln))) - 1
        return Addr("pair", mk_pair(ip2int(a), wild), spelling="prefix"), i + 1
    if i + 1 >= len(tok):
        raise RefError("wildcard expected")
    return Addr("pair", mk_pair(ip2int(t), ip2int(tok[i + 1])), spelling="wild"), i + 2


def port_set(op: str, operands: Sequence[int]) -> Intervals:
    if op == "eq":
        ivs = iv_from_values(operands)
    elif op == "neq":
        ivs = iv_complement(iv_from_values(operands), PORT_LO, PORT_HI)
    elif op == "lt":
        ivs = ((PORT_LO, operands[0] - 1),)
    elif op == "gt":
        ivs = ((operands[0] + 1, PORT_HI),)
    elif op == "range":
        ivs = ((min(operands), max(operands)),)
    else:
        raise RefError(f"operator {op!r}")
    return iv_clip(iv_norm(ivs), PORT_LO, PORT_HI)


def _read_ports(tok: List[str], i: int, names: Dict[str, int], platform: str, strict: bool):
    if i < len(tok) and tok[i] in OPERATORS:
        op = tok[i]
        i += 1
        vals: List[int] = []
        while i < len(tok) and (tok[i].isdigit() or tok[i] in names):
            vals.append(int(tok[i]) if tok[i].isdigit() else names[tok[i]])
            i += 1
        need = {"lt": (1, 1), "gt": (1, 1), "range": (2, 2)}.get(op, (1, 10 if platform == "ios" else 1))
        if not vals:
            raise RefError(f"operator {op} without operands")
        if op in ("lt", "gt", "range") and not need[0] <= len(vals) <= need[1]:
            raise RefError(f"operator {op} with {len(vals)} operands")
        if strict and not need[0] <= len(vals) <= need[1]:
            raise RefError(f"invalid-on-{platform}: {op} with {len(vals)} operands")
        return PortSpec(op, tuple(vals), port_set(op, vals)), i
    return None, i


def read_ace(text: str, platform: str, names: Names, proto_names: Dict[str, int],
             strict: bool = False, standard: bool = False) -> Rule:
    tok = text.split()
    i, seq = 0, 0
    if tok and tok[0].isdigit():
        seq, i = int(tok[0]), 1
    if i >= len(tok) or tok[i] not in ACTIONS:
        raise RefError(f"action expected in {text!r}")
    action = tok[i]
    i += 1
    if standard:
        if i < len(tok) and tok[i].count(".") == 3 and (i + 1 >= len(tok) or tok[i + 1].count(".") != 3):
            src, i = Addr("pair", mk_pair(ip2int(tok[i]), 0), spelling="host"), i + 1
        else:
            src, i = _read_addr(tok, i, platform, strict)
        return Rule(seq, action, 0, src, Addr("pair", mk_pair(0, ALL1), spelling="any"), None, None,
                    tuple(tok[i:]), standard=True)
    if i >= len(tok):
        raise RefError("protocol expected")
    ptok = tok[i]
    i += 1
    if ptok.isdigit():
        proto = int(ptok)
        if proto > 255:
            raise RefError("protocol number out of range")
    elif ptok in proto_names:
        proto = proto_names[ptok]
    else:
        raise RefError(f"unknown protocol {ptok!r}")
    pnames = names(proto) if proto in (6, 17) else {}
    src, i = _read_addr(tok, i, platform, strict)
    sport, i = _read_ports(tok, i, pnames, platform, strict)
    dst, i = _read_addr(tok, i, platform, strict)
    dport, i = _read_ports(tok, i, pnames, platform, strict)
    if (sport or dport) and proto not in (6, 17):
        raise RefError("ports with a protocol that has none")
    return Rule(seq, action, proto, src, dst, sport, dport, tuple(tok[i:]))


def read_body_line(text: str, **kw):
    tok = text.split()
    k = 1 if tok and tok[0].isdigit() else 0
    if len(tok) > k and tok[k] == "remark":
        return RemarkLine(int(tok[0]) if k else 0, " ".join(tok[k + 1:]))
    return read_ace(text, **kw)


@dataclass
class AclText:
    platform: str
    type: str
    name: str
    items: list = field(default_factory=list)


def read_acl(text: str, platform: str, names: Names, proto_names: Dict[str, int], strict: bool = False) -> AclText:
    lines = [" ".join(l.split()) for l in text.split("\n")]
    lines = [l for l in lines if l]
    if not lines or not lines[0].startswith("ip access-list "):
        raise RefError("ACL header expected")
    head = lines[0].split()
    if platform == "ios":
        if len(head) == 4 and head[2] in ("extended", "standard"):
            typ, name = head[2], head[3]
        elif len(head) == 3 and not strict:
            typ, name = "standard", head[2]
        else:
            raise RefError(f"invalid-on-ios: header {lines[0]!r}")
    else:
        if len(head) != 3:
            raise RefError(f"invalid-on-{platform}: header {lines[0]!r}")
        typ, name = "extended", head[2]
    acl = AclText(platform, typ, name)
    for line in lines[1:]:
        acl.items.append(read_body_line(line, platform=platform, names=names, proto_names=proto_names,
                                        strict=strict, standard=(typ == "standard")))
    return acl


def read_member(text: str, platform: str, strict: bool = False):
    """Object-group member -> (seq, Pair) or (seq, ('group', name))."""
    tok = text.split()
    seq = 0
    if platform == "nxos" and len(tok) >= 2 and tok[0].isdigit():
        seq, tok = int(tok[0]), tok[1:]
    if not tok:
        raise RefError("member expected")
    if tok[0] == "host" and len(tok) == 2:
        return seq, mk_pair(ip2int(tok[1]), 0)
    if tok == ["any"] and platform == "nxos":
        return seq, mk_pair(0, ALL1)
    if tok[0] == "group-object" and len(tok) == 2:
        if strict and platform != "ios":
            raise RefError("invalid-on-nxos: group-object")
        return seq, ("group", tok[1])
    if "/" in tok[0] and len(tok) == 1:
        if strict and platform == "ios":
            raise RefError("invalid-on-ios: prefix member")
        a, _, ln = tok[0].partition("/")
        if not ln.isdigit() or int(ln) > 32:
            raise RefError("bad prefix length")
        return seq, mk_pair(ip2int(a), (1 << (32 - int(ln))) - 1)
    if len(tok) == 2:
        a, m = ip2int(tok[0]), ip2int(tok[1])
        if platform == "ios":  # subnet mask
            wild = ALL1 ^ m
            if not is_contiguous(wild):
                raise RefError("non-contiguous subnet mask")
            return seq, mk_pair(a, wild)
        return seq, mk_pair(a, m)  # nxos: wildcard bits
    raise RefError(f"member {text!r}")


def read_addrgroup(text: str, platform: str, strict: bool = False):
    lines = [" ".join(l.split()) for l in text.split("\n")]
    lines = [l for l in lines if l]
    want = "object-group network " if platform == "ios" else "object-group ip address "
    if not lines or not lines[0].startswith(want):
        raise RefError(f"invalid-on-{platform}: group header")
    name = lines[0][len(want):]
    members = [read_member(l, platform, strict) for l in lines[1:] if not l.startswith("description ")]
    return name, members
