"""Helpers shared by the pair / ACL checks: build library objects from records, oracle relations."""
from __future__ import annotations

from typing import List, Optional

from lib import gen as G
from lib import refsem as R

SKIPS = [None, ["addrgroup"], ["nc_wildcard"], ["addrgroup", "nc_wildcard"], ["nc_wildcard", "addrgroup"]]


def member_lines(a: dict) -> List[str]:
    """Members of a group address in ACE address syntax (address + wildcard bits)."""
    return [f"{R.int2ip(b & ~w & R.ALL1)} {R.int2ip(w)}" for b, w in a.get("m") or []]


def build_ace(rec: dict, platform: str, version: str = "0", **kw):
    from cisco_acl import Ace

    ace = Ace(G.render_ace(rec, platform, version), platform=platform, version=version, **kw)
    attach_members(ace, rec)
    return ace


def attach_members(ace, rec: dict) -> None:
    if rec["src"]["k"] == "group":
        ace.srcaddr.items = member_lines(rec["src"])
    if rec["dst"]["k"] == "group":
        ace.dstaddr.items = member_lines(rec["dst"])


def rec_any_nc(rec: dict) -> bool:
    return G.rec_nc(rec)


def oracle_cover(bottom: dict, top: dict, skip: Optional[list]) -> bool:
    """bottom is in the shadow of top: same action, packet-set inclusion, skip options honoured."""
    if bottom["action"] != top["action"]:
        return False
    skip = list(skip or [])
    if "addrgroup" in skip and (G.rec_has_group(bottom) or G.rec_has_group(top)):
        return False
    if "nc_wildcard" in skip and (G.rec_nc(bottom) or G.rec_nc(top)):
        return False
    return R.rule_subset(G.rec_rule(bottom), G.rec_rule(top))


def ambiguous(bottom: dict, top: dict) -> bool:
    return R.port_universe_ambiguous(G.rec_rule(bottom), G.rec_rule(top))


def acl_header(platform: str, name: str = "T", typ: str = "extended") -> str:
    return f"ip access-list {typ} {name}" if platform == "ios" else f"ip access-list {name}"
