"""Helpers shared by the pair / ACL checks: build library objects from records, oracle relations."""
from __future__ import annotations

from typing import List, Optional

from lib import gen as G
from lib import refsem as R

SKIPS = [None, ["addrgroup"], ["nc_wildcard"], ["addrgroup", "nc_wildcard"], ["nc_wildcard", "addrgroup"]]


def member_lines(a: dict) -> List[str]:
    """Members of a group address in ACE address syntax (address + wildcard bits)."""
    return [f"{R.int2ip(b & ~w & R.ALL1)} {R.int2ip(w)}" for b, w in a.get("m") or []]


def build_ace(rec: dict, platform: str, version: str = "0", **kw):
    from cisco_acl import Ace

    ace = Ace(G.render_ace(rec, platform, version), platform=platform, version=version, **kw)
    attach_members(ace, rec)
    return ace


def attach_members(ace, rec: dict) -> None:
    if rec["src"]["k"] == "group":
        ace.srcaddr.items = member_lines(rec["src"])
    if rec["dst"]["k"] == "group":
        ace.dstaddr.items = member_lines(rec["dst"])


def rec_any_nc(rec: dict) -> bool:
    return G.rec_nc(rec)


def oracle_cover(bottom: dict, top: dict, skip: Optional[list]) -> bool:
    """bottom is in the shadow of top: same action, packet-set inclusion, skip options honoured."""
    if bottom["action"] != top["action"]:
        return False
    skip = list(skip or [])
    if "addrgroup" in skip and (G.rec_has_group(bottom) or G.rec_has_group(top)):
        return False
    if "nc_wildcard" in skip and (G.rec_nc(bottom) or G.rec_nc(top)):
        return False
    return R.rule_subset(G.rec_rule(bottom), G.rec_rule(top))


def ambiguous(bottom: dict, top: dict) -> bool:
    return R.port_universe_ambiguous(G.rec_rule(bottom), G.rec_rule(top))


def acl_header(platform: str, name: str = "T", typ: str = "extended") -> str:
    return f"ip access-list {typ} {name}" if platform == "ios" else f"ip access-list {name}"


# --------------------------------------------------------------------------------------- region sampling
def _addr_candidates(addr: R.Addr):
    out = []
    for base, wild in addr.pairs()[:3]:
        out.append(base)
        out.append(base | wild)
        for bit in range(32):
            if not wild >> bit & 1:
                out.append((base ^ (1 << bit)) & R.ALL1)
                break
        for bit in range(31, -1, -1):
            if not wild >> bit & 1:
                out.append((base ^ (1 << bit)) & R.ALL1)
                break
    return out or [0]


def _port_candidates(spec):
    if spec is None:
        return [1, 80, 65535]
    out = set()
    for a, b in spec.ivs[:3] + spec.ivs[-1:]:
        out.update(x for x in (a - 1, a, b, b + 1) if 1 <= x <= 65535)
    return sorted(out) or [1, 65535]


def sample_packets(rules, limit: int = 400):
    """Packets around the boundaries of every rule (inside and just outside each component)."""
    packets = []
    for r in rules:
        protos = [r.proto] if r.proto else [6, 17, 1]
        if r.proto and r.proto not in (6, 17):
            protos.append(6)
        srcs, dsts = _addr_candidates(r.src), _addr_candidates(r.dst)
        fs = r.flagset
        flagsets = [(), tuple(R.TCP_FLAGS)] + ([(f,) for f in sorted(fs)] if fs else [("ack",), ("syn",)])
        for proto in protos:
            sps = _port_candidates(r.sport) if proto in (6, 17) else [None]
            dps = _port_candidates(r.dport) if proto in (6, 17) else [None]
            fls = flagsets if proto == 6 else [()]
            combos = [(proto, s, d, sp, dp, fl) for s in srcs for d in dsts for sp in sps for dp in dps for fl in fls]
            stride = max(1, len(combos) // 60)
            packets.extend(combos[::stride])
    if len(packets) > limit:
        packets = packets[:: max(1, len(packets) // limit)]
    return packets


def first_match_differs(rules_a, rules_b):
    """A packet whose first-match decision differs between two rule lists, or None (cross-check only)."""
    for pkt in sample_packets(list(rules_a) + list(rules_b)):
        da, db = R.first_match(rules_a, pkt), R.first_match(rules_b, pkt)
        if da != db:
            return {"packet": {"proto": pkt[0], "src": R.int2ip(pkt[1]), "dst": R.int2ip(pkt[2]), "sport": pkt[3],
                               "dport": pkt[4], "flags": list(pkt[5])}, "before": da, "after": db}
    return None


def build_acl(acl_case: dict, **extra):
    """Acl from a generated program; member networks are attached to group addresses."""
    from cisco_acl import Acl

    acl = Acl(G.render_acl(acl_case, noise=False), **dict(G.acl_kwargs(acl_case), **extra))
    flat = list(flat_items(acl.items))
    if len(flat) == len(acl_case["items"]):
        for obj, it in zip(flat, acl_case["items"]):
            if it["t"] == "ace":
                attach_members(obj, it["rec"])
    return acl


def flat_items(items):
    from cisco_acl import AceGroup

    for it in items:
        if isinstance(it, AceGroup):
            yield from flat_items(it.items)
        else:
            yield it


def flat_with_block(items, block=None):
    """(line, block-name) for every rendered line; block-name is the owning AceGroup's name or None."""
    from cisco_acl import AceGroup

    for it in items:
        if isinstance(it, AceGroup):
            yield from flat_with_block(it.items, it.name)
        else:
            yield (it.line, block)
