"""Shared machinery: verdicts, sharded generation, bucketing, minimising, replay, evidence.

A *case* is a JSON-serialisable value.  A *judge* is a pure function ``judge(case) -> Verdict`` that
evaluates the code under test (always the current working tree of /repo) against the oracle.  The
search pass never raises on an oracle disagreement: it records (bucket, case) and goes on, so that
one shallow root cause does not hide the others (DESIGN.md 2.5).
"""
from __future__ import annotations

import hashlib
import json
import logging
import multiprocessing as mp
import os
import subprocess
import sys
import time
import traceback
import zlib
from collections import Counter
from dataclasses import dataclass, field
from typing import Any, Callable, Dict, Iterable, List, Optional

VERIF = os.path.dirname(os.path.dirname(os.path.abspath(__file__)))
REPO = os.environ.get("VERIF_REPO", "/repo")
NPROC = int(os.environ.get("VERIF_NPROC", "16"))


class Invalid(Exception):
    """The case is outside the domain of the property (only ever produced by the minimiser)."""


class HarnessError(Exception):
    """The check itself is broken (never reported as a violation)."""


# --------------------------------------------------------------------------------------- verdicts
class Verdict:
    __slots__ = ("fails", "labels", "nontrivial", "key", "excluded", "sample")

    def __init__(self):
        self.fails: List[tuple] = []  # (bucket, detail)
        self.labels: List[str] = []
        self.nontrivial = False
        self.key = None  # canonical value used for the distinct count (default: the case)
        self.excluded: List[str] = []
        self.sample = None  # what to show in evidence for this case (default: the case)

    def fail(self, bucket: str, detail: Any = "") -> None:
        self.fails.append((bucket, detail))

    def label(self, *names: str) -> None:
        self.labels.extend(names)

    def nt(self, flag: bool = True) -> None:
        if flag:
            self.nontrivial = True

    def exclude(self, why: str) -> None:
        self.excluded.append(why)

    @property
    def ok(self) -> bool:
        return not self.fails


def lib_frame(exc: BaseException) -> Optional[str]:
    """Innermost traceback frame inside cisco_acl (or its dependencies), else None."""
    frames = traceback.extract_tb(exc.__traceback__)
    inner = None
    for fr in frames:
        if "/cisco_acl/" in fr.filename:
            inner = f"{os.path.basename(fr.filename)}:{fr.name}"
    return inner


def innermost_is_verif(exc: BaseException) -> bool:
    frames = traceback.extract_tb(exc.__traceback__)
    if not frames:
        return True
    last = frames[-1].filename
    return last.startswith(VERIF) and "/.deps/" not in last


def guarded(judge: Callable[[Any], Verdict]) -> Callable[[Any], Verdict]:
    """Wrap a judge: an exception that escapes from library code becomes a failure bucket, an
    exception raised by the check's own code is a harness error."""

    def run(case) -> Verdict:
        try:
            return judge(case)
        except Invalid:
            raise
        except HarnessError:
            raise
        except RecursionError as ex:
            v = Verdict()
            v.fail(f"exc:RecursionError@{lib_frame(ex)}", "RecursionError")
            return v
        except Exception as ex:  # pylint: disable=broad-except
            where = lib_frame(ex)
            if where is None or innermost_is_verif(ex):
                raise HarnessError(f"{type(ex).__name__}: {ex}\n{traceback.format_exc()}") from ex
            v = Verdict()
            v.fail(f"exc:{type(ex).__name__}@{where}", f"{type(ex).__name__}: {str(ex)[:300]}")
            return v

    return run


# --------------------------------------------------------------------------------------- logging
class LogCapture(logging.Handler):
    """Owns the root logger while a check runs (C12 reads the records)."""

    def __init__(self):
        super().__init__(level=logging.DEBUG)
        self.records: List[logging.LogRecord] = []

    def emit(self, record):
        self.records.append(record)

    def clear(self):
        self.records = []


_CAPTURE: Optional[LogCapture] = None


def capture() -> LogCapture:
    global _CAPTURE
    if _CAPTURE is None:
        root = logging.getLogger()
        for hd in list(root.handlers):
            root.removeHandler(hd)
        _CAPTURE = LogCapture()
        root.addHandler(_CAPTURE)
        root.setLevel(logging.DEBUG)
    return _CAPTURE


# --------------------------------------------------------------------------------------- subs
@dataclass
class Sub:
    """One generated search inside a check."""

    name: str
    judge: Callable[[Any], Verdict]
    strategy: Optional[Callable[[str], Any]] = None  # tier -> hypothesis strategy of cases
    enum: Optional[Callable[[str, int, int], Iterable]] = None  # (tier, shard, nshards) -> cases
    runner: Optional[Callable] = None  # (tier, shard, nshards, seed, deadline, absorb) external campaign (atheris)
    quick: int = 1000
    thorough: int = 20000
    shards_quick: int = 16
    shards_thorough: int = 32
    exhaustive: bool = False  # enum covers a finite space completely (thorough tier)
    exhaustive_quick: bool = False
    minimise: bool = True
    watchdog: bool = False  # cases may hang inside uninterruptible C code: the parent kills a stalled shard


STALL_S = 170  # a watched shard that stays on one case this long is killed (C20 confirms a hang 4 x 30 s itself)


def _canon(obj) -> str:
    return json.dumps(obj, sort_keys=True, default=str, separators=(",", ":"))


def chash(obj) -> int:
    return int.from_bytes(hashlib.blake2b(_canon(obj).encode(), digest_size=8).digest(), "big")


def derive_seed(*parts) -> int:
    return zlib.crc32("|".join(str(p) for p in parts).encode()) & 0x7FFFFFFF


@dataclass
class Stats:
    evaluations: int = 0
    invalid: int = 0
    truncated: int = 0
    nontrivial: set = field(default_factory=set)
    labels: Counter = field(default_factory=Counter)
    excluded: Counter = field(default_factory=Counter)
    samples: Dict[str, Any] = field(default_factory=dict)
    failures: Dict[str, tuple] = field(default_factory=dict)  # bucket -> (size, case, detail, sub)
    fail_counts: Counter = field(default_factory=Counter)

    def merge(self, other: "Stats") -> None:
        self.evaluations += other.evaluations
        self.invalid += other.invalid
        self.truncated += other.truncated
        self.nontrivial |= other.nontrivial
        self.labels.update(other.labels)
        self.excluded.update(other.excluded)
        for k, val in other.samples.items():
            self.samples.setdefault(k, val)
        for bucket, tup in other.failures.items():
            if bucket not in self.failures or tup[0] < self.failures[bucket][0]:
                self.failures[bucket] = tup
        self.fail_counts.update(other.fail_counts)


def _absorb(stats: Stats, sub: Sub, case, v: Verdict) -> None:
    stats.evaluations += 1
    for lab in v.labels:
        stats.labels[f"{sub.name}:{lab}"] += 1
    for why in v.excluded:
        stats.excluded[f"{sub.name}:{why}"] += 1
    if v.nontrivial:
        stats.nontrivial.add(chash([sub.name, v.key if v.key is not None else case]))
        lab = f"{sub.name}:" + (v.labels[0] if v.labels else "nontrivial")
        if lab not in stats.samples and len(stats.samples) < 40:
            stats.samples[lab] = v.sample if v.sample is not None else case
    for bucket, detail in v.fails:
        stats.fail_counts[bucket] += 1
        size = len(_canon(case))
        if bucket not in stats.failures or size < stats.failures[bucket][0]:
            stats.failures[bucket] = (size, case, detail, sub.name)


def _run_shard(args) -> Stats:
    prop, subname, shard, nshards, ncases, seed, tier, deadline = args
    capture()
    mod = load_check(prop)
    sub = next(s for s in mod.SUBS if s.name == subname)
    judge = guarded(sub.judge)
    stats = Stats()

    wd_path = None
    if sub.watchdog and os.environ.get("VERIF_WD_DIR"):
        wd_path = os.path.join(os.environ["VERIF_WD_DIR"], f"{prop}-{subname}-{shard}.json")

    def one(case):
        if time.time() > deadline:
            stats.truncated += 1
            return
        if wd_path:
            with open(wd_path, "w", encoding="utf-8") as fh:
                json.dump({"sub": subname, "case": case}, fh, default=str)
        try:
            v = judge(case)
        except Invalid:
            stats.invalid += 1
            return
        _absorb(stats, sub, case, v)

    def done():
        if wd_path and os.path.exists(wd_path):
            os.remove(wd_path)
        return stats

    if sub.runner is not None:
        extra = sub.runner(tier, shard, nshards, derive_seed(seed, prop, subname, shard), deadline, one)
        stats.evaluations += int((extra or {}).get("executions", 0))
        for lab, n in ((extra or {}).get("labels") or {}).items():
            stats.labels[f"{sub.name}:{lab}"] += n
        return done()
    if sub.enum is not None:
        for case in sub.enum(tier, shard, nshards):
            one(case)
        return done()

    from hypothesis import HealthCheck, Phase, given, seed as hseed, settings

    strat = sub.strategy(tier)

    @hseed(derive_seed(seed, prop, subname, shard))
    @settings(max_examples=ncases, database=None, deadline=None, derandomize=False,
              suppress_health_check=list(HealthCheck), phases=[Phase.generate],
              report_multiple_bugs=False)
    @given(strat)
    def prop_fn(case):
        one(case)

    prop_fn()
    return done()


def cov_runner(prop: str, subname: str, quick_s: int = 8, thorough_s: int = 200):
    """A `Sub.runner` that drives fuzz/fuzz_hyp.py: a coverage-guided atheris (libFuzzer) campaign over the byte
    stream Hypothesis decodes into cases of sub-check `subname`, judged inside the target by that sub-check's
    judge.  Findings are re-judged here (without atheris) through `absorb`: only reproducible ones count."""

    def runner(tier, shard, nshards, seed, deadline, absorb):
        import shutil
        import subprocess
        import tempfile

        work = tempfile.mkdtemp(prefix=f"{prop.lower()}-cov-")
        corpus, out = os.path.join(work, "corpus"), os.path.join(work, "out")
        os.makedirs(corpus)
        os.makedirs(out)
        default = thorough_s if tier == "thorough" else quick_s
        budget = max(4, min(int(os.environ.get("VERIF_COV_S", default)), int(deadline - time.time()) - 60))
        verif = os.path.dirname(os.path.dirname(os.path.abspath(__file__)))
        cmd = [sys.executable, "-B", os.path.join(verif, "fuzz", "fuzz_hyp.py"), "--out", out, "--prop", prop,
               "--sub", subname, "--tier", tier, corpus, f"-seed={seed % 2147483647 or 1}",
               f"-max_total_time={budget}", "-max_len=2048", "-len_control=0", "-print_final_stats=0", "-timeout=300",
               f"-artifact_prefix={out}/"]
        try:
            subprocess.run(cmd, stdout=subprocess.DEVNULL, stderr=subprocess.DEVNULL, timeout=budget + 180, check=False,
                           env=dict(os.environ, PYTHONHASHSEED="0"))
        except subprocess.TimeoutExpired:
            pass
        doc = {}
        try:
            doc = json.load(open(os.path.join(out, "count.json")))
        except (OSError, ValueError):
            pass
        herr = os.path.join(out, "harness-error.txt")
        if os.path.exists(herr):
            text = open(herr).read()
            shutil.rmtree(work, ignore_errors=True)
            raise HarnessError(f"{prop}/{subname} (coverage-guided): {text[:1500]}")
        nfind = 0
        for name in sorted(os.listdir(out)):
            if name.startswith("finding-"):
                absorb(json.load(open(os.path.join(out, name)))["case"])
                nfind += 1
        shutil.rmtree(work, ignore_errors=True)
        execs = int(doc.get("count", 0))
        labels = {"cov-executions": execs, "cov-nontrivial": int(doc.get("nontrivial", 0)),
                  "cov-invalid": int(doc.get("invalid", 0)), "cov-findings-rejudged": nfind, "cov-jobs": 1}
        for lab, n in sorted((doc.get("labels") or {}).items(), key=lambda kv: -kv[1])[:12]:
            labels[f"cov:{lab}"] = n
        return {"executions": execs, "labels": labels}

    return runner


def cov_sub(prop: str, base: "Sub", jobs_quick: int = 2, jobs_thorough: int = 8, quick_s: int = 8, thorough_s: int = 200) -> "Sub":
    """The coverage-guided twin of a Hypothesis sub-check (same strategy, same judge, atheris chooses the bytes)."""
    return Sub(f"{base.name}-cov", base.judge, runner=cov_runner(prop, base.name, quick_s, thorough_s), quick=1, thorough=1,
               shards_quick=jobs_quick, shards_thorough=jobs_thorough, minimise=base.minimise)


def load_check(prop: str):
    import importlib

    return importlib.import_module(f"checks.{prop.lower()}")


# --------------------------------------------------------------------------------------- minimiser
def _candidates(x):
    """Structurally simpler variants of a JSON value (lazy, most aggressive first)."""
    if isinstance(x, list):
        n = len(x)
        if n > 1:
            half = n // 2
            yield x[:half]
            yield x[half:]
        for i in range(n):
            yield x[:i] + x[i + 1:]
        for i in range(n):
            for c in _candidates(x[i]):
                yield x[:i] + [c] + x[i + 1:]
    elif isinstance(x, dict):
        for k in x:
            for c in _candidates(x[k]):
                y = dict(x)
                y[k] = c
                yield y
    elif isinstance(x, bool):
        if x:
            yield False
    elif isinstance(x, int):
        if x != 0:
            for c in (0, 1, x // 2, x - 1 if x > 0 else x + 1):
                if abs(c) < abs(x):
                    yield c
    elif isinstance(x, str):
        if x:
            toks = x.split(" ")
            if len(toks) > 1:
                for i in range(len(toks)):
                    yield " ".join(toks[:i] + toks[i + 1:])
            lines = x.split("\n")
            if len(lines) > 1:
                for i in range(len(lines)):
                    yield "\n".join(lines[:i] + lines[i + 1:])
            if len(x) > 8:
                yield x[: len(x) // 2]
                yield x[len(x) // 2:]


def minimise(case, bucket: str, judge, budget: int = 600, seconds: float = 25.0):
    """Greedy structural minimiser: keep a simpler variant while it stays in the same bucket.

    Bounded by oracle evaluations and, as a safety net for slow judges, by wall time (a hit only
    means a less minimal replay file, never a different verdict)."""
    judge = guarded(judge)
    t_end = time.time() + seconds

    def still(c) -> bool:
        try:
            v = judge(c)
        except (Invalid, HarnessError):
            return False
        except Exception:  # pylint: disable=broad-except
            return False
        return any(b == bucket for b, _ in v.fails)

    improved = True
    while improved and budget > 0:
        improved = False
        for cand in _candidates(case):
            budget -= 1
            if budget <= 0 or time.time() > t_end:
                budget = 0
                break
            if still(cand):
                case = cand
                improved = True
                break
    return case


# --------------------------------------------------------------------------------------- known
def load_known(prop: str):
    known, fixed = {}, []
    path = os.path.join(VERIF, "KNOWN_FINDINGS.txt")
    if os.path.exists(path):
        for line in open(path, encoding="utf-8"):
            line = line.strip()
            if line.startswith("known:") and f"property={prop} " in line:
                rest = line.split(f"property={prop} ", 1)[1]
                if rest.startswith("key="):
                    key, _, text = rest[4:].partition(" ")
                    known[key] = text.strip()
            elif line.startswith("fixed:") and f"property={prop} " in line:
                fixed.append(line)
    return known, fixed


def tree_identity() -> dict:
    def sh(*cmd):
        try:
            return subprocess.run(cmd, capture_output=True, text=True, check=False).stdout
        except OSError:
            return ""

    head = sh("git", "-C", REPO, "rev-parse", "HEAD").strip()
    diff = sh("git", "-C", REPO, "diff", "HEAD")
    return {"repo_head": head, "repo_diff_sha": hashlib.sha256(diff.encode()).hexdigest()[:16] if diff else ""}


# --------------------------------------------------------------------------------------- driver
def run_check(prop: str, tier: str, seed: int) -> int:
    t0 = time.time()
    capture()
    mod = load_check(prop)
    budget = float(os.environ.get("VERIF_BUDGET_S", "0")) or (
        getattr(mod, "BUDGET_QUICK", 240) if tier == "quick" else getattr(mod, "BUDGET_THOROUGH", 3000))
    deadline = t0 + budget
    total = Stats()
    violations: List[str] = []
    known_lines: List[str] = []
    known, _fixed = load_known(prop)

    # 1. regression tier: committed replay files of this property
    replay_dir = os.path.join(VERIF, "replays")
    replayed = 0
    for name in sorted(os.listdir(replay_dir)) if os.path.isdir(replay_dir) else []:
        if not (name.startswith(prop + "-") and name.endswith(".json")):
            continue
        path = os.path.join(replay_dir, name)
        res = replay_file(path, quiet=True)
        replayed += 1
        if res:
            bucket = res[0]
            if bucket in known:
                continue
            violations.append(f"VIOLATION property={prop} replay={path}")

    # 2. generated search
    tasks = []
    for sub in mod.SUBS:
        n = sub.quick if tier == "quick" else sub.thorough
        if n <= 0:
            continue
        nshards = sub.shards_quick if tier == "quick" else sub.shards_thorough
        if sub.enum is None and sub.runner is None:
            nshards = max(1, min(nshards, n // 20 or 1))
            per = -(-n // nshards)
        else:
            per = 0
        for sh in range(nshards):
            tasks.append((prop, sub.name, sh, nshards, per, seed, tier, deadline))
    # longest first is unknown; interleave subs so that all of them progress
    harness_error = None
    watched = any(s_.watchdog for s_ in mod.SUBS)
    stalled = []  # (subname, case) of shards killed by the watchdog
    if tasks and watched:
        import shutil
        import tempfile

        wd_dir = tempfile.mkdtemp(prefix="verif-wd-")
        os.environ["VERIF_WD_DIR"] = wd_dir
        ctx = mp.get_context("fork")
        pool = ctx.Pool(min(NPROC, len(tasks)))
        try:
            results = [pool.apply_async(_run_shard, (t,)) for t in tasks]
            pending = set(range(len(tasks)))
            while pending and not stalled:
                for i in list(pending):
                    if results[i].ready():
                        total.merge(results[i].get())
                        pending.discard(i)
                now = time.time()
                for name in os.listdir(wd_dir):
                    path = os.path.join(wd_dir, name)
                    try:
                        if now - os.path.getmtime(path) > STALL_S:
                            doc = json.load(open(path, encoding="utf-8"))
                            stalled.append((doc["sub"], doc["case"]))
                    except (OSError, ValueError):
                        continue
                if pending and not stalled:
                    time.sleep(0.25)
        except HarnessError as ex:
            harness_error = str(ex)
        except Exception as ex:  # pylint: disable=broad-except
            harness_error = f"{type(ex).__name__}: {ex}\n{traceback.format_exc()}"
        finally:
            pool.terminate()
            pool.join()
            os.environ.pop("VERIF_WD_DIR", None)
            shutil.rmtree(wd_dir, ignore_errors=True)
    elif tasks:
        ctx = mp.get_context("fork")
        with ctx.Pool(min(NPROC, len(tasks))) as pool:
            try:
                for st in pool.imap_unordered(_run_shard, tasks, chunksize=1):
                    total.merge(st)
            except HarnessError as ex:
                harness_error = str(ex)
            except Exception as ex:  # pylint: disable=broad-except
                harness_error = f"{type(ex).__name__}: {ex}\n{traceback.format_exc()}"
    if harness_error:
        print(f"HARNESS-ERROR property={prop}\n{harness_error}", file=sys.stderr)
        return 2

    # 3. buckets -> known finding | minimise + replay file + VIOLATION
    subs = {s.name: s for s in mod.SUBS}
    known_hit = Counter()
    for subname, case in stalled:
        # never re-judged in this process (it would not come back): the case goes into the replay file as it is
        target = case.get("target", "") if isinstance(case, dict) else ""
        bucket = f"hang-watchdog:{subname}:{target}"
        total.fail_counts[bucket] += 1
        path = write_replay(prop, subname, bucket, case, {"note": f"no answer within {STALL_S} s; the worker was killed "
                                                                  "(uninterruptible computation)"})
        violations.append(f"VIOLATION property={prop} replay={path}")
    for bucket, (_size, case, detail, subname) in sorted(total.failures.items()):
        if bucket in known:
            known_hit[bucket] = total.fail_counts[bucket]
            known_lines.append(f"KNOWN-FINDING: property={prop} key={bucket} {known[bucket]} "
                               f"(hit {total.fail_counts[bucket]} times)")
            continue
        sub = subs[subname]
        small = case
        if sub.minimise:
            try:
                small = minimise(case, bucket, sub.judge, budget=400 if tier == "quick" else 1500)
            except Exception:  # pylint: disable=broad-except
                small = case
        try:
            v = guarded(sub.judge)(small)
            det = next((d for b, d in v.fails if b == bucket), detail)
        except Exception:  # pylint: disable=broad-except
            det = detail
        path = write_replay(prop, subname, bucket, small, det)
        violations.append(f"VIOLATION property={prop} replay={path}")
    # a listed known finding that was not hit is still announced (it is a property of the tree)
    for key, text in known.items():
        if key not in known_hit:
            res = confirm_known(mod, key)
            if res is True:
                known_lines.append(f"KNOWN-FINDING: property={prop} key={key} {text} (confirmed by witness)")
            elif res is False:
                known_lines.append(f"NOTE: property={prop} key={key} listed as known but its witness no longer fails")

    wall = time.time() - t0
    write_evidence(mod, prop, tier, seed, total, wall, len(violations), replayed, dict(known_hit))
    for line in known_lines:
        print(line)
    for line in violations:
        print(line)
    print(f"[{prop} {tier} seed={seed}] evaluations={total.evaluations} "
          f"distinct_nontrivial={len(total.nontrivial)} buckets={len(total.failures)} "
          f"violations={len(violations)} invalid={total.invalid} truncated={total.truncated} wall={wall:.1f}s")
    return 1 if violations else 0


def confirm_known(mod, key: str):
    wit = getattr(mod, "KNOWN_WITNESS", {}).get(key)
    if not wit:
        return None
    subname, case = wit
    sub = next(s for s in mod.SUBS if s.name == subname)
    try:
        v = guarded(sub.judge)(case)
    except Exception:  # pylint: disable=broad-except
        return None
    return any(b == key for b, _ in v.fails)


def write_replay(prop: str, subname: str, bucket: str, case, detail) -> str:
    # VERIF_REPLAY_OUT redirects NEW replay files (used when the checks are tried against seeded
    # breakers, so that the committed regression files are not overwritten)
    outdir = os.environ.get("VERIF_REPLAY_OUT") or os.path.join(VERIF, "replays")
    os.makedirs(outdir, exist_ok=True)
    hid = hashlib.sha1(f"{subname}|{bucket}".encode()).hexdigest()[:10]
    path = os.path.join(outdir, f"{prop}-{hid}.json")
    doc = {"property": prop, "sub": subname, "bucket": bucket, "case": case, "detail": detail,
           "tree": tree_identity()}
    with open(path, "w", encoding="utf-8") as fh:
        json.dump(doc, fh, indent=1, default=str)
        fh.write("\n")
    return path


def replay_file(path: str, quiet: bool = False):
    """Re-evaluate one saved case without Hypothesis. Returns the failing buckets."""
    doc = json.load(open(path, encoding="utf-8"))
    prop = doc["property"]
    capture()
    mod = load_check(prop)
    sub = next(s for s in mod.SUBS if s.name == doc["sub"])
    if str(doc.get("bucket", "")).startswith("hang-watchdog:"):
        # evaluated in a child that can be killed
        ctx = mp.get_context("fork")
        q = ctx.Queue()

        def child():
            try:
                v_ = guarded(sub.judge)(doc["case"])
                q.put([b for b, _ in v_.fails])
            except Invalid:
                q.put([])

        pr = ctx.Process(target=child)
        pr.start()
        pr.join(STALL_S)
        if pr.is_alive():
            pr.terminate()
            pr.join()
            if not quiet:
                print(f"replay {path}: bucket={doc['bucket']} (no answer within {STALL_S} s)")
            return [doc["bucket"]]
        buckets = q.get() if not q.empty() else []
        if not quiet:
            print(f"replay {path}: " + (f"buckets={buckets}" if buckets else "passes"))
        return buckets
    try:
        v = guarded(sub.judge)(doc["case"])
    except Invalid:
        if not quiet:
            print(f"replay {path}: case is outside the domain (Invalid)")
        return []
    buckets = [b for b, _ in v.fails]
    if not quiet:
        for b, d in v.fails:
            print(f"replay {path}: bucket={b}\n  detail={json.dumps(d, default=str)[:2000]}")
        if not v.fails:
            print(f"replay {path}: passes")
    return buckets


def write_evidence(mod, prop, tier, seed, total: Stats, wall, nviol, replayed, known_hit) -> None:
    evdir = os.environ.get("VERIF_EVIDENCE_OUT") or os.path.join(VERIF, "evidence")
    os.makedirs(evdir, exist_ok=True)
    level = getattr(mod, "LEVEL", "exploration")
    samples = [{"class": k, "case": _trim(v)} for k, v in list(total.samples.items())[:24]]
    exhaustive = all((s.exhaustive if tier == "thorough" else s.exhaustive_quick) for s in mod.SUBS
                     if (s.quick if tier == "quick" else s.thorough) > 0) and total.truncated == 0
    cov: Dict[str, Any] = {
        "evaluations": total.evaluations,
        "distinct_nontrivial": len(total.nontrivial),
        "rule": getattr(mod, "RULE", ""),
        "samples": samples or [{"class": "none", "case": None}],
        "exhaustive": bool(exhaustive),
        "classes": dict(sorted(total.labels.items())),
        "excluded_by_construction": dict(total.excluded),
        "invalid_cases_discarded": total.invalid,
        "truncated_by_budget": total.truncated,
        "failure_buckets": dict(total.fail_counts),
        "known_findings_hit": known_hit,
        "replay_files_rerun": replayed,
        "subchecks": {s.name: (s.quick if tier == "quick" else s.thorough) for s in mod.SUBS},
        "tree": tree_identity(),
        "tools": _tool_versions(),
    }
    if level == "translation_validation":
        cov["programs"] = total.evaluations
        cov["disagreements_checked"] = total.labels.get("_pairs_compared", 0) or sum(
            n for k, n in total.labels.items() if k.endswith(":compared"))
    extra = getattr(mod, "evidence_extra", None)
    if extra:
        cov.update(extra(total))
    doc = {
        "property_id": prop, "tier": tier, "seed": int(seed), "level": level, "coverage": cov,
        "assumptions": list(getattr(mod, "ASSUMPTIONS", [])), "wall_s": round(wall, 2),
        "violations": nviol,
    }
    with open(os.path.join(evdir, f"{prop}.json"), "w", encoding="utf-8") as fh:
        json.dump(doc, fh, indent=1, default=str)
        fh.write("\n")


def _trim(obj, limit: int = 1500):
    text = _canon(obj)
    if len(text) <= limit:
        return obj
    return text[:limit] + "...(truncated)"


def _tool_versions() -> dict:
    out = {"python": sys.version.split()[0]}
    try:
        import hypothesis

        out["hypothesis"] = hypothesis.__version__
    except Exception:  # pylint: disable=broad-except
        pass
    return out
