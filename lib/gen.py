"""Shared grammar: JSON field records for addresses / ports / ACEs / ACLs, their rendering to Cisco
text in any accepted spelling, their meaning as refsem rules, and Hypothesis strategies.

Records are plain JSON so that every case can be saved, replayed and minimised structurally.

addr : {"k": any|allones|host|host0|prefix|wild|group, "b": int, "w": int, "n": name, "m": [[b,w],..]}
port : {"op": eq|neq|lt|gt|range, "v": [int..], "nm": [int..]}   nm[i] = -1 numeric, >=0 pick a name
ace  : {"seq","action","proto","pn","src","dst","sp","dp","flags","logs","opq","ws"}
"""
from __future__ import annotations

from typing import Dict, List, Optional

from hypothesis import strategies as st

from lib import refsem as R

ALL1 = R.ALL1
TCP_FLAGS = list(R.TCP_FLAGS)
POOL_BASE = R.ip2int("10.0.0.0")


# --------------------------------------------------------------------------------------- tables
_names_cache: Dict[tuple, Dict[str, int]] = {}


def lib_port_names(proto: int, platform: str, version: str = "0") -> Dict[str, int]:
    """Port names the *library* accepts on (platform, version) - read at run time."""
    key = (proto, platform, str(version))
    if key not in _names_cache:
        from cisco_acl.port_name import PortName

        _names_cache[key] = dict(PortName("tcp" if proto == 6 else "udp", platform, str(version)).names())
    return _names_cache[key]


PLATFORM_ALIASES = {"ios": ["ios", "ios", "cisco_ios"], "nxos": ["nxos", "nxos", "cisco_nxos", "cnx"]}


def alias_st(platform: str):
    """A documented spelling of the platform argument (the canonical name most of the time)."""
    return st.sampled_from(PLATFORM_ALIASES[platform])


def names_fn(platform: str, version: str = "0"):
    return lambda proto: lib_port_names(proto, platform, version)


def lib_proto_any() -> Dict[str, int]:
    from cisco_acl.protocol import PROTOCOLS_ANY

    return dict(PROTOCOLS_ANY)


def lib_proto_native(platform: str) -> Dict[str, int]:
    from cisco_acl.protocol import PROTOCOL_TO_NR

    return dict(PROTOCOL_TO_NR[platform])


# --------------------------------------------------------------------------------------- render
def is_contig(w: int) -> bool:
    return R.is_contiguous(w)


def addr_pair(a: dict):
    k = a["k"]
    if k == "any":
        return R.mk_pair(0, ALL1)
    if k == "allones":
        return R.mk_pair(a["b"], ALL1)
    if k in ("host", "host0"):
        return R.mk_pair(a["b"], 0)
    if k in ("prefix", "wild"):
        return R.mk_pair(a["b"], a["w"])
    raise ValueError(k)


def addr_members(a: dict):
    return tuple(R.mk_pair(b, w) for b, w in a.get("m") or ())


def addr_ref(a: dict) -> R.Addr:
    if a["k"] == "group":
        return R.Addr("group", None, name=a["n"], members=addr_members(a), spelling="group")
    return R.Addr("pair", addr_pair(a), spelling=a["k"])


def render_addr(a: dict, platform: str) -> str:
    k = a["k"]
    if k == "any":
        return "any"
    if k == "allones":
        return f"{R.int2ip(a['b'])} 255.255.255.255"
    if k == "host":
        return f"host {R.int2ip(a['b'])}"
    if k == "host0":
        return f"{R.int2ip(a['b'])} 0.0.0.0"
    if k == "prefix":
        return f"{R.int2ip(a['b'])}/{32 - bin(a['w']).count('1')}"
    if k == "wild":
        return f"{R.int2ip(a['b'])} {R.int2ip(a['w'])}"
    if k == "group":
        return ("addrgroup " if platform == "nxos" else "object-group ") + a["n"]
    raise ValueError(k)


def native_addr(pair, platform: str) -> dict:
    """The spelling the platform itself uses for this address set."""
    b, w = pair
    if w == ALL1:
        return {"k": "any", "b": 0, "w": ALL1}
    if w == 0:
        return {"k": "host", "b": b, "w": 0}
    if platform == "nxos" and R.is_contiguous(w):
        return {"k": "prefix", "b": b, "w": w}
    return {"k": "wild", "b": b, "w": w}


def addr_is_native(a: dict, platform: str) -> bool:
    if a["k"] == "group":
        return True
    p = addr_pair(a)
    nat = native_addr(p, platform)
    return nat["k"] == a["k"] and (a["k"] == "any" or a["b"] == p[0])


def port_token(value: int, pick: int, names: Dict[str, int]) -> str:
    if pick < 0:
        return str(value)
    cands = sorted(n for n, v in names.items() if v == value)
    if not cands:
        return str(value)
    return cands[pick % len(cands)]


def render_port(p: Optional[dict], names: Dict[str, int]) -> str:
    if p is None:
        return ""
    nm = p.get("nm") or []
    toks = [port_token(v, nm[i] if i < len(nm) else -1, names) for i, v in enumerate(p["v"])]
    return p["op"] + " " + " ".join(toks)


def port_spec(p: Optional[dict]) -> Optional[R.PortSpec]:
    if p is None:
        return None
    return R.PortSpec(p["op"], tuple(p["v"]), R.port_set(p["op"], p["v"]))


def proto_token(rec: dict, platform: str) -> str:
    pn = rec.get("pn", -1)
    if pn < 0:
        return str(rec["proto"])
    cands = sorted(n for n, v in lib_proto_any().items() if v == rec["proto"])
    if not cands:
        return str(rec["proto"])
    return cands[pn % len(cands)]


def rec_tokens(rec: dict, platform: str, version: str = "0") -> List[str]:
    names = lib_port_names(rec["proto"], platform, version) if rec["proto"] in (6, 17) else {}
    parts = [str(rec["seq"]) if rec.get("seq") else "", rec["action"], proto_token(rec, platform),
             render_addr(rec["src"], platform), render_port(rec.get("sp"), names),
             render_addr(rec["dst"], platform), render_port(rec.get("dp"), names)] + [" ".join(o) for o in option_groups(rec)]
    return [t for part in parts if part for t in part.split(" ")]


def render_ace(rec: dict, platform: str, version: str = "0", noise: bool = True) -> str:
    toks = rec_tokens(rec, platform, version)
    ws = rec.get("ws") if noise else None
    if not ws:
        return " ".join(toks)
    # blanks of every kind the library's whitespace normalisation accepts (copy-paste from documents brings
    # no-break and em spaces)
    gaps = {0: " ", 1: "  ", 2: "   ", 3: "\t", 4: " \t ", 5: "\u00a0", 6: " \u2003", 7: " ", 8: " ", 9: "  ", 10: "\t"}
    out = gaps[ws[0] % 5] if ws[0] % 7 == 0 else ""
    for i, tok in enumerate(toks):
        out += tok
        if i + 1 < len(toks):
            out += gaps[ws[(i + 1) % len(ws)] % 11]
    if ws[-1] % 3 == 0:
        out += " "
    return out


def validate_addr(a) -> None:
    from lib.harness import Invalid

    if not isinstance(a, dict) or a.get("k") not in ("any", "allones", "host", "host0", "prefix", "wild", "group"):
        raise Invalid()
    if a["k"] == "group":
        if not a.get("n") or not isinstance(a.get("m", []), list):
            raise Invalid()
        for m in a.get("m") or []:
            if not (isinstance(m, list) and len(m) == 2 and all(isinstance(x, int) and 0 <= x <= ALL1 for x in m)):
                raise Invalid()
        return
    if not all(isinstance(a.get(x), int) and 0 <= a[x] <= ALL1 for x in ("b", "w")):
        raise Invalid()
    if a["k"] == "prefix" and not R.is_contiguous(a["w"]):
        raise Invalid()


def validate_port(p, platform: str) -> None:
    from lib.harness import Invalid

    if p is None:
        return
    if not isinstance(p, dict) or p.get("op") not in R.OPERATORS or not isinstance(p.get("v"), list) or not p["v"]:
        raise Invalid()
    if any(not isinstance(x, int) or not 1 <= x <= 65535 for x in p["v"]):
        raise Invalid()
    n = len(p["v"])
    if p["op"] in ("lt", "gt") and n != 1 or p["op"] == "range" and n != 2:
        raise Invalid()
    if p["op"] in ("eq", "neq") and n > (10 if platform == "ios" else 1):
        raise Invalid()
    if len(set(p["v"])) != n and p["op"] in ("eq", "neq"):
        raise Invalid()


def validate_rec(rec, platform: str) -> None:
    """Records produced by the minimiser may leave the grammar: reject them (Invalid)."""
    from lib.harness import Invalid

    if not isinstance(rec, dict) or rec.get("action") not in ("permit", "deny"):
        raise Invalid()
    if not isinstance(rec.get("proto"), int) or not 0 <= rec["proto"] <= 255:
        raise Invalid()
    if not isinstance(rec.get("seq", 0), int) or not 0 <= (rec.get("seq") or 0) <= R.SEQ_MAX:
        raise Invalid()
    validate_addr(rec.get("src"))
    validate_addr(rec.get("dst"))
    for side in ("sp", "dp"):
        validate_port(rec.get(side), platform)
        if rec.get(side) is not None and rec["proto"] not in (6, 17):
            raise Invalid()
    flags = rec.get("flags") or []
    if flags and rec["proto"] != 6:
        raise Invalid()
    if any(f not in TCP_FLAGS + ["established"] for f in flags) or len(set(flags)) != len(flags):
        raise Invalid()
    if any(x not in ("log", "log-input") for x in rec.get("logs") or []):
        raise Invalid()
    if not isinstance(rec.get("opq") or [], list) or not isinstance(rec.get("pn", -1), int):
        raise Invalid()
    ws = rec.get("ws")
    if ws is not None and (not isinstance(ws, list) or not ws or any(not isinstance(x, int) or x < 0 for x in ws)):
        raise Invalid()


def option_groups(rec: dict):
    """Option tokens in text order: flags, opaque options, log keyword - or the log keyword first ('lf'),
    which is the usual Cisco order for 'log time-range X' / 'log-input fragments'."""
    groups = [list(rec.get("flags") or []), list(rec.get("opq") or []), list(rec.get("logs") or [])]
    if rec.get("lf"):
        groups = [groups[2], groups[0], groups[1]]
    return groups


def rec_rule(rec: dict) -> R.Rule:
    opts = tuple(t for grp in option_groups(rec) for t in grp)
    return R.Rule(rec.get("seq") or 0, rec["action"], rec["proto"], addr_ref(rec["src"]), addr_ref(rec["dst"]),
                  port_spec(rec.get("sp")), port_spec(rec.get("dp")), opts)


def rec_nc(rec: dict) -> bool:
    return any(a["k"] == "wild" and not R.is_contiguous(a["w"]) for a in (rec["src"], rec["dst"]))


def rec_has_group(rec: dict) -> bool:
    return any(a["k"] == "group" for a in (rec["src"], rec["dst"]))


def to_native(rec: dict, platform: str) -> dict:
    """Same meaning in the platform's own spelling (names are kept as chosen)."""
    out = dict(rec)
    for side in ("src", "dst"):
        a = rec[side]
        if a["k"] != "group":
            out[side] = native_addr(addr_pair(a), platform)
    out["ws"] = None
    return out


# --------------------------------------------------------------------------------------- strategies
def base_st(pool: float = 0.75):
    small = st.integers(0, 1023).map(lambda x: POOL_BASE | x)
    wide = st.integers(0, ALL1)
    return st.one_of(small, small, small, wide) if pool >= 0.7 else st.one_of(small, wide)


@st.composite
def wildmask_st(draw, kmax: int = 4, nc_only: bool = False):
    if not nc_only and draw(st.integers(0, 9)) < 5:
        plen = draw(st.one_of(st.integers(20, 32), st.integers(0, 32)))
        return (1 << (32 - plen)) - 1
    if kmax >= 7 and draw(st.booleans()):
        # a whole (or nearly whole) wild octet above a short contiguous run: 0.255.0.63, 0.1.255.7 ...
        low = draw(st.integers(0, 7))
        kk = draw(st.sampled_from([kmax - 1, kmax, kmax]))
        shift = draw(st.sampled_from([8, 16])) if low < 8 else 16
        if shift + kk > 32:
            shift = 32 - kk
        return ((1 << low) - 1) | (((1 << kk) - 1) << shift)
    if draw(st.integers(0, 11)) == 7:
        # the highest k bits (what a subnet mask typed in place of a wildcard looks like): 128.0.0.0 ... 254.0.0.0
        kk = draw(st.integers(1, max(1, min(kmax, 7))))
        return ((1 << kk) - 1) << (32 - kk)
    low = draw(st.integers(0, 8))
    wild = (1 << low) - 1
    k = draw(st.integers(1, max(1, kmax)))
    hi = draw(st.sampled_from([low + 6, 16, 31]))
    hi = max(hi, low + 1 + k)
    bits = draw(st.lists(st.integers(low + 1, min(31, hi)), min_size=1, max_size=k, unique=True))
    for b in bits:
        wild |= 1 << b
    return wild


@st.composite
def addr_st(draw, kmax: int = 4, groups: bool = False, members: bool = True, kinds=None):
    kinds = kinds or ["any", "host", "host", "host0", "prefix", "prefix", "wild", "wild", "wild", "allones"]
    if groups:
        kinds = kinds + ["group", "group"]
    k = draw(st.sampled_from(kinds))
    base = draw(base_st())
    if k == "any":
        return {"k": "any", "b": 0, "w": ALL1}
    if k == "allones":
        return {"k": "allones", "b": base, "w": ALL1}
    if k in ("host", "host0"):
        return {"k": k, "b": base, "w": 0}
    if k == "prefix":
        plen = draw(st.one_of(st.integers(22, 32), st.integers(0, 32)))
        wild = (1 << (32 - plen)) - 1
        if draw(st.booleans()):
            base &= ~wild & ALL1
        return {"k": "prefix", "b": base, "w": wild}
    if k == "wild":
        wild = draw(wildmask_st(kmax))
        if draw(st.booleans()):
            base &= ~wild & ALL1
        return {"k": "wild", "b": base, "w": wild}
    name = draw(st.sampled_from(["G1", "G2", "NET-A", "g.3", "G1", "G2", "anyconnect-pool", "any-net", "hosts", "WEB", "DMZ-WEB"]))
    mem = []
    if members:
        for _ in range(draw(st.integers(1, 4))):
            mb = draw(base_st())
            mw = draw(wildmask_st(min(kmax, 2)))
            mem.append([mb & ~mw & ALL1, mw])
        if mem and draw(st.integers(0, 3)) == 2:
            # members that contain one another, the narrow one listed first or last
            b0, w0 = mem[0]
            if is_contig(w0) and w0 != ALL1:
                w1 = (w0 << draw(st.integers(1, 4)) | 0xF) & ALL1 if w0 else 0xFF
                w1 = (1 << w1.bit_length()) - 1
                wider = [b0 & ~w1 & ALL1, w1]
                mem.insert(draw(st.sampled_from([1, len(mem)])), wider)
    return {"k": "group", "b": 0, "w": 0, "n": name, "m": mem}


_ALIEN = None


def named_anywhere():
    """Port numbers that carry a name in at least one platform / version table of the library."""
    global _ALIEN
    if _ALIEN is None:
        vals = set()
        for platform in ("asa", "ios", "nxos"):
            for version in ("0", "15.2(02)SY"):
                for proto in (6, 17):
                    vals.update(lib_port_names(proto, platform, version).values())
        _ALIEN = sorted(vals)
    return _ALIEN


def port_value_st(names: Optional[Dict[str, int]] = None):
    opts = [st.integers(1, 6), st.integers(1, 6), st.sampled_from([1, 2, 65534, 65535]), st.integers(1, 65535),
            st.sampled_from(named_anywhere()),
            # numbers whose name exists on some platform / version only (msrpc, onep-*, ripv6, drip, syslog, ssh, https)
            st.sampled_from([135, 15001, 15002, 521, 3949, 514, 22, 443])]
    if names:
        opts.append(st.sampled_from(sorted(set(names.values()))))
        opts.append(st.sampled_from(sorted(set(names.values()))))
    return st.one_of(*opts)


@st.composite
def port_st(draw, platform: str = "ios", names=None, allow_none=True, empty_sets=False, multi=True,
            ops=("eq", "eq", "neq", "lt", "gt", "range")):
    if allow_none and draw(st.integers(0, 9)) < 3:
        return None
    op = draw(st.sampled_from(list(ops)))
    pv = port_value_st(names)
    if op in ("eq", "neq"):
        n = 1
        if multi and platform == "ios":
            n = draw(st.sampled_from([1, 1, 1, 2, 2, 3, 10]))
        vals = draw(st.lists(pv, min_size=n, max_size=n, unique=True))
    elif op == "range":
        vals = [draw(pv), draw(pv)]
    else:
        val = draw(pv)
        if not empty_sets:
            if op == "lt" and val == 1:
                val = 2
            if op == "gt" and val == 65535:
                val = 65534
        elif draw(st.integers(0, 5)) == 0:
            val = 1 if op == "lt" else 65535
        vals = [val]
    nm = [draw(st.sampled_from([-1, -1, 0, 1])) for _ in vals]
    return {"op": op, "v": vals, "nm": nm}


_COMMON = st.sampled_from([0, 0, 6, 6, 6, 6, 17, 17, 17, 1, 47, 200])
PROTO_ST = st.one_of(_COMMON, _COMMON, _COMMON, st.integers(0, 255))


@st.composite
def ace_st(draw, platform: str = "ios", version: str = "0", kmax: int = 4, groups=False, members=True,
           empty_sets=False, opaque=False, seq=True, noise=True, established=True, multi=True,
           neq_multi=True, protos=None):
    proto = draw(PROTO_ST if protos is None else protos)
    rec = {"seq": 0, "action": draw(st.sampled_from(["permit", "permit", "deny"])), "proto": proto,
           "pn": draw(st.sampled_from([-1, 0, 0, 1])),
           "src": draw(addr_st(kmax, groups, members)), "dst": draw(addr_st(kmax, groups, members)),
           "sp": None, "dp": None, "flags": [], "logs": [], "opq": [], "ws": None}
    if seq and draw(st.integers(0, 9)) < 3:
        rec["seq"] = draw(st.one_of(st.integers(1, 200), st.sampled_from([1, 2 ** 32 - 1, 2 ** 32 - 2]),
                                    st.integers(1, 2 ** 32 - 1)))
    if proto in (6, 17):
        names = lib_port_names(proto, platform, version)
        for side in ("sp", "dp"):
            p = draw(port_st(platform, names, True, empty_sets, multi))
            if p and not neq_multi and p["op"] == "neq" and len(p["v"]) > 1:
                p["v"] = p["v"][:1]
                p["nm"] = p["nm"][:1]
            rec[side] = p
        if rec["sp"] and draw(st.integers(0, 7)) == 5:
            rec["dp"] = dict(rec["sp"])  # the same expression on both sides (RTP ranges, gt 1023 on both ...)
    if proto == 6 and draw(st.integers(0, 9)) < 3:
        pool = TCP_FLAGS + (["established"] if established else [])
        rec["flags"] = draw(st.lists(st.sampled_from(pool), min_size=1, max_size=3, unique=True))
    if draw(st.integers(0, 9)) < 2:
        rec["logs"] = [draw(st.sampled_from(["log", "log-input"]))]
    if opaque and draw(st.integers(0, 9)) < 2:
        rec["opq"] = draw(st.sampled_from([["fragments"], ["dscp", "ef"], ["precedence", "critical"], ["dscp", "af31"],
                                           ["dscp", "cs5"], ["time-range", "after6pm"], ["match-any", "tos", "max-throughput"],
                                           # operands are free text after their keyword: any characters
                                           ["time-range", "office_hours"], ["time-range", "whEU"], ["time-range", "t.1"],
                                           # words that begin like an address keyword
                                           ["time-range", "anytime"], ["time-range", "hosting"]]))
    if rec["logs"] and (rec["flags"] or rec["opq"]) and draw(st.booleans()):
        rec["lf"] = True
    if noise and draw(st.integers(0, 9)) < 3:
        rec["ws"] = draw(st.lists(st.integers(0, 20), min_size=1, max_size=6))
    return rec


# ----- derived second ACE (pair generators)
@st.composite
def mutate_addr(draw, a: dict, kmax: int = 4, groups=False):
    how = draw(st.sampled_from(["same", "same", "narrow", "narrow", "wide", "wide", "flip", "fresh"]))
    if a["k"] == "group":
        if how in ("same", "narrow", "wide"):
            b = dict(a)
            mem = [list(m) for m in a.get("m") or []]
            if how == "narrow" and len(mem) > 1:
                mem = mem[:-1]
            if how == "wide":
                mem = mem + [[draw(base_st()), 0]]
            b["m"] = mem
            return b
        return draw(addr_st(kmax, groups))
    base, wild = addr_pair(a)
    if how == "same":
        return dict(a)
    if how == "fresh":
        return draw(addr_st(kmax, groups))
    if how == "narrow":
        bits = [i for i in range(32) if wild >> i & 1]
        if not bits:
            return dict(a)
        drop = draw(st.lists(st.sampled_from(bits), min_size=1, max_size=min(3, len(bits)), unique=True))
        w2, b2 = wild, base
        for i in drop:
            w2 &= ~(1 << i)
            if draw(st.booleans()):
                b2 |= 1 << i
        if len(R.nc_bits(w2)) > kmax:
            # keep it simple: shorten the trailing run from the top instead
            low = R.trailing_ones(wild)
            cut = draw(st.integers(1, min(3, low))) if low else 0
            w2 = wild & ~(((1 << cut) - 1) << (low - cut)) if cut else wild
            b2 = base
            if len(R.nc_bits(w2)) > kmax:
                return dict(a)
        return _addr_from_pair(draw, (b2 & ~w2 & ALL1, w2), kmax)
    if how == "wide":
        zero = [i for i in range(32) if not wild >> i & 1]
        if not zero:
            return dict(a)
        low = R.trailing_ones(wild)
        pick = draw(st.sampled_from(["next", "next", "any"]))
        if pick == "next":
            add = [low] if low < 32 else []
        else:
            nc_now = len(R.nc_bits(wild))
            add = draw(st.lists(st.sampled_from(zero), min_size=1, max_size=1)) if nc_now < kmax else [low]
        w2 = wild
        for i in add:
            w2 |= 1 << i
        if len(R.nc_bits(w2)) > kmax:
            w2 = wild
        return _addr_from_pair(draw, (base & ~w2 & ALL1, w2), kmax)
    # flip one non-wildcard bit: disjoint neighbour
    zero = [i for i in range(32) if not wild >> i & 1]
    if not zero:
        return dict(a)
    i = draw(st.sampled_from(zero))
    return _addr_from_pair(draw, ((base ^ (1 << i)) & ~wild & ALL1, wild), kmax)


def _addr_from_pair(draw, pair, kmax):
    b, w = pair
    if w == ALL1:
        return draw(st.sampled_from([{"k": "any", "b": 0, "w": ALL1}, {"k": "allones", "b": b, "w": ALL1}]))
    if w == 0:
        return {"k": draw(st.sampled_from(["host", "host0", "prefix"])), "b": b, "w": 0}
    if R.is_contiguous(w):
        return {"k": draw(st.sampled_from(["prefix", "wild"])), "b": b, "w": w}
    return {"k": "wild", "b": b, "w": w}


@st.composite
def mutate_port(draw, p: Optional[dict], platform: str, names, empty_sets=False, multi=True):
    how = draw(st.sampled_from(["same", "same", "sub", "sub", "super", "fresh", "none", "gap"]))
    if how == "none":
        return None
    if how == "gap":
        # a port (or range) between the smallest and largest port of a multi-port list, but not in it
        ivs0 = R.port_set(p["op"], p["v"]) if p else ()
        if len(ivs0) >= 2:
            k = draw(st.integers(0, len(ivs0) - 2))
            lo_, hi_ = ivs0[k][1] + 1, ivs0[k + 1][0] - 1
            if draw(st.booleans()):
                return {"op": "eq", "v": [draw(st.integers(lo_, hi_))], "nm": [-1]}
            return {"op": "range", "v": [ivs0[0][0], ivs0[-1][1]], "nm": [-1, -1]}
        how = "sub"
    if p is None or how == "fresh":
        return draw(port_st(platform, names, True, empty_sets, multi))
    if how == "same":
        return dict(p)
    ivs = R.port_set(p["op"], p["v"])
    if not ivs:
        return dict(p)
    lo, hi = ivs[0][0], ivs[-1][1]
    if how == "sub":
        a, b = ivs[draw(st.integers(0, len(ivs) - 1))]
        pick = draw(st.sampled_from(["eq", "range", "range"]))
        x = draw(st.integers(a, min(b, a + 5)))
        if pick == "eq" or a == b:
            return {"op": "eq", "v": [x], "nm": [draw(st.sampled_from([-1, 0]))]}
        y = draw(st.integers(x, min(b, x + 5)))
        return {"op": "range", "v": [x, y], "nm": [-1, -1]}
    # super
    pick = draw(st.sampled_from(["range", "lt", "gt", "neq"]))
    if pick == "range":
        return {"op": "range", "v": [max(1, lo - draw(st.integers(0, 2))), min(65535, hi + draw(st.integers(0, 2)))],
                "nm": [-1, -1]}
    if pick == "lt" and hi < 65535:
        return {"op": "lt", "v": [hi + 1], "nm": [-1]}
    if pick == "gt" and lo > 1:
        return {"op": "gt", "v": [lo - 1], "nm": [-1]}
    outside = [x for x in (lo - 1, hi + 1, 7, 65535) if 1 <= x <= 65535 and not any(a <= x <= b for a, b in ivs)]
    if outside:
        return {"op": "neq", "v": [outside[0]], "nm": [-1]}
    return dict(p)


@st.composite
def mutate_ace(draw, rec: dict, platform: str, version="0", kmax=4, groups=False, empty_sets=False,
               established=True, multi=True):
    out = dict(rec)
    out["ws"] = None
    if draw(st.integers(0, 9)) < 2:
        out["action"] = "deny" if rec["action"] == "permit" else "permit"
    pm = draw(st.sampled_from(range(12)))
    if pm < 2:
        out["proto"] = 0
    elif pm < 3:
        out["proto"] = draw(st.sampled_from([6, 17, 1]))
    elif pm < 5:
        # a neighbouring / arbitrary protocol number (two protocols without a keyword must stay different)
        out["proto"] = draw(st.one_of(st.sampled_from([(rec["proto"] + 1) % 256, (rec["proto"] - 1) % 256]),
                                      st.integers(0, 255)))
    out["pn"] = draw(st.sampled_from([-1, 0]))
    out["src"] = draw(mutate_addr(rec["src"], kmax, groups))
    out["dst"] = draw(mutate_addr(rec["dst"], kmax, groups))
    if out["proto"] in (6, 17):
        names = lib_port_names(out["proto"], platform, version)
        out["sp"] = draw(mutate_port(rec.get("sp"), platform, names, empty_sets, multi))
        out["dp"] = draw(mutate_port(rec.get("dp"), platform, names, empty_sets, multi))
    else:
        out["sp"] = out["dp"] = None
    if out["proto"] == 6:
        fm = draw(st.integers(0, 9))
        flags = list(rec.get("flags") or [])
        if fm < 4:
            pass
        elif fm < 6:
            flags = flags[:-1]
        elif fm < 8:
            pool = TCP_FLAGS + (["established", "established", "established"] if established else [])
            extra = draw(st.sampled_from(pool))
            if extra not in flags:
                flags = flags + [extra]
        else:
            flags = []
        out["flags"] = flags
    else:
        out["flags"] = []
    if draw(st.integers(0, 9)) < 2:
        out["logs"] = ["log"] if not rec.get("logs") else []
    out["seq"] = 0
    return out


@st.composite
def flag_focus(draw, top: dict, bottom: dict, established: bool = True):
    """Turn a derived pair into a TCP pair whose flag conditions are related (subset / superset / the
    'established' keyword against its two flags) - flag comparisons are otherwise rarely exercised."""
    pool = TCP_FLAGS + (["established"] if established else [])
    top, bottom = dict(top), dict(bottom)
    for rec in (top, bottom):
        if rec["proto"] != 6:
            if rec["proto"] != 17:
                rec["sp"] = rec["dp"] = None
            rec["proto"], rec["pn"] = 6, 0
    tf = draw(st.lists(st.sampled_from(pool), min_size=1, max_size=3, unique=True))
    how = draw(st.sampled_from(["same", "subset", "superset", "est-only", "plus-est", "est-for-ackrst", "other"]))
    if how == "same":
        bf = list(tf)
    elif how == "subset":
        bf = tf[: draw(st.integers(1, len(tf)))]
    elif how == "superset":
        extra = draw(st.sampled_from(pool))
        bf = tf + ([extra] if extra not in tf else [])
    elif how == "est-only" and established:
        bf = ["established"]
    elif how == "plus-est" and established:
        bf = tf + (["established"] if "established" not in tf else [])
    elif how == "est-for-ackrst" and established:
        bf = [f for f in tf if f not in ("ack", "rst", "established")] + ["established"]
    else:
        bf = draw(st.lists(st.sampled_from(pool), min_size=0, max_size=2, unique=True))
    top["flags"], bottom["flags"] = tf, bf
    bottom["action"] = top["action"]
    return top, bottom


def port_exprs(ivs, platform: str):
    """Every one-operator spelling whose port set is exactly the interval list `ivs` (within 1..65535)."""
    ivs = [tuple(x) for x in ivs]
    out = []
    if not ivs:
        return out
    if len(ivs) == 1:
        lo, hi = ivs[0]
        out.append({"op": "range", "v": [lo, hi], "nm": [-1, -1]})
        if lo != hi:
            out.append({"op": "range", "v": [hi, lo], "nm": [-1, -1]})
        if lo == 1 and hi < 65535:
            out.append({"op": "lt", "v": [hi + 1], "nm": [-1]})
        if hi == 65535 and lo > 1:
            out.append({"op": "gt", "v": [lo - 1], "nm": [-1]})
    gaps = [(ivs[i][1] + 1, ivs[i + 1][0] - 1) for i in range(len(ivs) - 1)]
    holes = []
    if ivs[0][0] > 1:
        gaps = [(1, ivs[0][0] - 1)] + gaps
    if ivs[-1][1] < 65535:
        gaps = gaps + [(ivs[-1][1] + 1, 65535)]
    nholes = sum(b - a + 1 for a, b in gaps)
    limit = 10 if platform == "ios" else 1
    if 1 <= nholes <= limit:
        holes = [x for a, b in gaps for x in range(a, b + 1)]
        out.append({"op": "neq", "v": holes, "nm": [-1] * len(holes)})
    nports = sum(b - a + 1 for a, b in ivs)
    if 1 <= nports <= limit:
        vals = [x for a, b in ivs for x in range(a, b + 1)]
        out.append({"op": "eq", "v": vals, "nm": [-1] * len(vals)})
    return out


def _ivs_minus(ivs, x):
    out = []
    for a, b in ivs:
        if a <= x <= b:
            if a <= x - 1:
                out.append((a, x - 1))
            if x + 1 <= b:
                out.append((x + 1, b))
        else:
            out.append((a, b))
    return out


def _ivs_plus(ivs, x):
    pts = sorted(list(ivs) + [(x, x)])
    out = []
    for a, b in pts:
        if out and a <= out[-1][1] + 1:
            out[-1] = (out[-1][0], max(out[-1][1], b))
        else:
            out.append((a, b))
    return out


@st.composite
def port_focus(draw, top: dict, bottom: dict, platform: str):
    """Turn a derived pair into a tcp/udp pair that differs in one port condition only, where the two port sets
    are equal, or differ by exactly one port at an end of a run (often an end of the port space), in any
    spelling: range 1024 65535 under lt 65535, neq 7 under range 1 65535, gt 1 under neq 1 ..."""
    top, bottom = dict(top), dict(bottom)
    proto = draw(st.sampled_from([6, 17]))
    for rec in (top, bottom):
        rec["proto"], rec["pn"], rec["flags"] = proto, 0, []
    bottom["action"] = top["action"]
    bottom["src"], bottom["dst"] = dict(top["src"]), dict(top["dst"])
    side = draw(st.sampled_from(["sp", "dp"]))
    other = "dp" if side == "sp" else "sp"
    bottom[other] = top[other] = draw(st.one_of(st.none(), port_st(platform, None, False, False, False)))
    edge = st.sampled_from([1, 2, 3, 65533, 65534, 65535])
    val = st.one_of(edge, edge, st.integers(1, 65535), st.sampled_from([22, 80, 443, 1024]))
    shape = draw(st.sampled_from(["neq", "range", "range", "lt", "gt", "eq", "full", "lists"]))
    if shape == "lists" and platform == "ios":
        # two lists with the same lowest and highest port and another port in between (eq or neq on both)
        lo = draw(st.integers(1, 65000))
        mids = draw(st.lists(st.integers(lo + 1, lo + 8), min_size=2, max_size=2, unique=True))
        op = draw(st.sampled_from(["eq", "neq"]))
        v1, v2 = [lo, mids[0], lo + 9], [lo, mids[1] if draw(st.booleans()) else mids[0], lo + 9]
        p1, p2 = {"op": op, "v": v1, "nm": [-1] * 3}, {"op": op, "v": v2, "nm": [-1] * 3}
        top[side], bottom[side] = p1, p2
        return top, bottom
    if shape == "lists":
        shape = "range"
    if shape == "neq":
        ivs = R.port_set("neq", [draw(val)])
    elif shape == "range":
        ivs = R.port_set("range", [draw(val), draw(st.one_of(val, edge))])
    elif shape == "lt":
        ivs = R.port_set("lt", [max(2, draw(val))])
    elif shape == "gt":
        ivs = R.port_set("gt", [min(65534, draw(val))])
    elif shape == "eq":
        ivs = R.port_set("eq", [draw(val)])
    else:
        ivs = ((1, 65535),)
    ivs = [tuple(x) for x in ivs]
    ends = sorted({ivs[0][0], ivs[-1][1]} | {x for a, b in ivs for x in (a, b)})
    how = draw(st.sampled_from(["same", "minus", "minus", "plus"]))
    ivs2 = list(ivs)
    if how == "minus":
        ivs2 = _ivs_minus(ivs, draw(st.sampled_from(ends)))
    elif how == "plus":
        outside = [x for x in {ivs[0][0] - 1, ivs[-1][1] + 1} | {a - 1 for a, _ in ivs} | {b + 1 for _, b in ivs}
                   if 1 <= x <= 65535 and not any(a <= x <= b for a, b in ivs)]
        if outside:
            ivs2 = _ivs_plus(ivs, draw(st.sampled_from(sorted(outside))))
    e1, e2 = port_exprs(ivs, platform), port_exprs(ivs2, platform)
    if not e1 or not e2:
        return top, bottom
    p1, p2 = draw(st.sampled_from(e1)), draw(st.sampled_from(e2))
    if draw(st.booleans()):
        p1, p2 = p2, p1
    top[side], bottom[side] = p1, p2
    return top, bottom


def label_addr(a: dict) -> str:
    if a["k"] == "wild":
        return "wild-nc" if not R.is_contiguous(a["w"]) else "wild-contig"
    return a["k"]


# --------------------------------------------------------------------------------------- ACL programs
REMARK_ALPHABET = "abcdefghijklmnopqrstuvwxyzABCXYZ0123456789-_=*#.,:;/()[]<>+!@$%&|~'\""


def remark_text_st():
    word = st.text(alphabet=REMARK_ALPHABET, min_size=1, max_size=8)
    tricky = st.sampled_from(["10", "permit ip any any", "deny tcp any any eq 80", "remark", "20 remark x",
                              "host 10.0.0.1", "eq www", "log", "4294967295", "ip access-list extended X",
                              "statistics per-entry", "description d"])
    short = st.lists(st.one_of(word, word, word, tricky), min_size=1, max_size=4).map(" ".join)
    # long texts: around and beyond 100 characters (the device limit for a remark; the library sets none)
    long_ = st.tuples(st.integers(70, 130), st.lists(word, min_size=20, max_size=20)).map(
        lambda t: " ".join(t[1] * 2)[: t[0]].strip() or "x")
    return st.one_of(short, short, short, short, short, short, short, long_)


def validate_acl(case) -> None:
    from lib.harness import Invalid

    if not isinstance(case, dict) or case.get("platform") not in ("ios", "nxos"):
        raise Invalid()
    if not isinstance(case.get("items"), list):
        raise Invalid()
    for it in case["items"]:
        if not isinstance(it, dict) or it.get("t") not in ("ace", "rem"):
            raise Invalid()
        if it["t"] == "ace":
            validate_rec(it.get("rec"), case["platform"])
        else:
            text = it.get("text")
            if not isinstance(text, str) or not text or text != " ".join(text.split()) or "\n" in text:
                raise Invalid()
            if not isinstance(it.get("seq", 0), int) or not 0 <= it.get("seq", 0) <= R.SEQ_MAX:
                raise Invalid()
    if not isinstance(case.get("indent", " "), str) or case.get("indent", " ").strip(" \t"):
        raise Invalid()
    name = case.get("name", "T")
    if not isinstance(name, str) or not name or name != name.strip() or " " in name or "?" in name:
        raise Invalid()


def acl_header(case) -> str:
    name = case.get("name", "T")
    if case["platform"] == "ios":
        return f"ip access-list {case.get('type', 'extended')} {name}"
    return f"ip access-list {name}"


def item_line(it: dict, platform: str, version: str = "0", noise: bool = True) -> str:
    if it["t"] == "rem":
        return (f"{it['seq']} " if it.get("seq") else "") + "remark " + it["text"]
    return render_ace(it["rec"], platform, version, noise)


def render_acl(case, noise: bool = True) -> str:
    ind = case.get("indent", " ") or " "
    lines = [acl_header(case)]
    for it in case["items"]:
        lines.append(ind + item_line(it, case["platform"], case.get("version", "0"), noise))
    return "\n".join(lines)


def acl_kwargs(case) -> dict:
    kw = dict(platform=case["platform"])
    for key in ("version", "port_nr", "protocol_nr", "group_by", "indent", "max_ncwb"):
        if case.get(key) not in (None, "", False):
            kw[key] = case[key]
    return kw


def acl_name_st():
    """ACL names: short ones, names that begin with a header keyword, and names near the 100-character limit (an
    IOS header is 9 characters longer than the NX-OS header of the same list)."""
    long_ = st.integers(70, 100).map(lambda n: ("LONG-" + "abcdefghij" * 10)[:n])
    return st.one_of(st.sampled_from(["T", "ACL-1", "acl_x.y", "110", "T", "ACL-1"]),
                     st.sampled_from(["standard-mgmt", "extended-vty-in", "standard_snmp", "extendedX", "remark-1", "permit"]),
                     long_)


@st.composite
def acl_st(draw, platform=None, min_items=0, max_items=12, kmax=3, groups=False, members=True, seqs=True,
           headings=True, group_by=True, noise=False, native=True, neq_multi=True, multi=True, empty_sets=False,
           dup_headings=False, established=True, opaque=False, indent=True, protos=None, comma_headings=False):
    platform = platform or draw(st.sampled_from(["ios", "nxos"]))
    kw = dict(kmax=kmax, groups=groups, members=members, seq=False, noise=noise, empty_sets=empty_sets,
              neq_multi=neq_multi, multi=multi, established=established, opaque=opaque, protos=protos)
    pool = [draw(ace_st(platform, **kw)) for _ in range(draw(st.integers(1, 4)))]
    prefix = draw(st.sampled_from(["= ", "= ", "=== ", "#", "grp:"]))
    n = draw(st.integers(min_items, max_items))
    items, hcount = [], 0
    for i in range(n):
        kind = draw(st.integers(0, 11))
        if kind < 2 and headings:
            hcount += 1
            name = f"H{hcount}" if not (dup_headings and hcount > 1 and draw(st.integers(0, 3)) == 0) else "H1"
            if comma_headings and name != "H1" and draw(st.booleans()):
                # distinct headings that agree up to the first comma ("NAME, description" convention)
                name = f"H{max(1, hcount - 1)}, part {hcount}"
            items.append({"t": "rem", "text": f"{prefix}{name}", "seq": 0})
        elif kind < 4:
            text = draw(remark_text_st())
            if text.startswith(prefix):
                text = "x" + text
            items.append({"t": "rem", "text": text, "seq": 0})
        elif kind < 6:
            items.append({"t": "ace", "rec": dict(draw(st.sampled_from(pool)))})
        elif kind < 10:
            items.append({"t": "ace", "rec": draw(mutate_ace(draw(st.sampled_from(pool)), platform, kmax=kmax,
                                                             groups=groups, empty_sets=empty_sets,
                                                             established=established, multi=multi))})
        else:
            items.append({"t": "ace", "rec": draw(ace_st(platform, **kw))})
    for it in items:
        if it["t"] == "ace":
            rec = it["rec"]
            if not neq_multi:
                for side in ("sp", "dp"):
                    if rec.get(side) and rec[side]["op"] == "neq" and len(rec[side]["v"]) > 1:
                        rec[side] = dict(rec[side], v=rec[side]["v"][:1], nm=rec[side]["nm"][:1])
            if native:
                it["rec"] = to_native(rec, platform)
    if members:
        normalise_groups(items)
    mode = draw(st.sampled_from(["none", "none", "all", "some", "wild"])) if seqs else "none"
    if mode != "none":
        cur = draw(st.sampled_from([1, 5, 10, 100]))
        for it in items:
            if mode == "some" and draw(st.booleans()):
                continue
            val = cur if mode != "wild" else draw(st.one_of(st.integers(1, 300), st.integers(1, R.SEQ_MAX)))
            if it["t"] == "ace":
                it["rec"]["seq"] = val
            else:
                it["seq"] = val
            cur += draw(st.sampled_from([1, 5, 10]))
    case = {"platform": platform, "name": draw(acl_name_st()), "type": "extended",
            "items": items, "prefix": prefix,
            "group_by": prefix if (group_by and headings and draw(st.integers(0, 2)) == 0) else "",
            "indent": draw(st.sampled_from([" ", "  ", "  ", "   ", "    ", "\t"])) if indent else "  "}
    return case


def strip_members(rec: dict) -> dict:
    out = dict(rec)
    for side in ("src", "dst"):
        if rec[side]["k"] == "group":
            out[side] = dict(rec[side], m=[])
    return out


def normalise_groups(items) -> None:
    """One group name <-> one member list inside an ACL program (a group is a named object; the ACL text
    only carries the name). Names are assigned per distinct member list."""
    names = {}
    for it in items:
        if it["t"] != "ace":
            continue
        for side in ("src", "dst"):
            a = it["rec"][side]
            if a["k"] == "group":
                key = tuple(tuple(m) for m in a.get("m") or [])
                if key not in names:
                    names[key] = f"G{len(names) + 1}"
                it["rec"][side] = dict(a, n=names[key])


def groups_consistent(items) -> bool:
    seen = {}
    for it in items:
        if it["t"] != "ace":
            continue
        for side in ("src", "dst"):
            a = it["rec"][side]
            if a["k"] == "group":
                key = tuple(tuple(m) for m in a.get("m") or [])
                if seen.setdefault(a["n"], key) != key:
                    return False
    return True


def flat_meaning(case):
    """Ordered (kind, seq, meaning) list predicted for the ACL *text* by construction (group members are
    not part of the text)."""
    out = []
    for it in case["items"]:
        if it["t"] == "rem":
            out.append(("r", it.get("seq") or 0, it["text"]))
        else:
            rule = rec_rule(strip_members(it["rec"]))
            out.append(("a", rule.seq, rule.meaning()))
    return out


def read_flat(text: str, platform: str, version: str = "0", strict: bool = True, members=None):
    """Reference reading of rendered ACL text -> header + ordered (kind, seq, meaning) list."""
    acl = R.read_acl(text, platform, names_fn(platform, version), lib_proto_any(), strict=strict)
    out = []
    for x in acl.items:
        if isinstance(x, R.RemarkLine):
            out.append(("r", x.seq, x.text))
        else:
            out.append(("a", x.seq, x.meaning()))
    return acl, out
