#!/venv/bin/python
"""Coverage-guided search behind any Hypothesis sub-check: atheris (libFuzzer) mutates the byte stream that
Hypothesis decodes into a case of the sub-check's own strategy (`test.hypothesis.fuzz_one_input`), the library is
instrumented for coverage, and the sub-check's judge (the semantic oracle) runs inside the target.

Usage (driven by harness.cov_runner in the checks, or by hand):
    fuzz_hyp.py --out DIR --prop C01 --sub ace --tier thorough CORPUS_DIR -seed=S -max_total_time=T

Violations do not stop the campaign: every new bucket is written to DIR/finding-<hash>.json (the case is the
reproducible unit, re-judged by the parent without atheris) and excluded from then on.
"""
import hashlib
import json
import os
import sys
import time

VERIF = os.path.dirname(os.path.dirname(os.path.abspath(__file__)))
REPO = os.environ.get("VERIF_REPO", "/repo")
sys.path[:0] = [REPO, VERIF]
if os.path.isdir(os.path.join(VERIF, ".deps")):
    sys.path.append(os.path.join(VERIF, ".deps"))
sys.dont_write_bytecode = True

import atheris  # noqa: E402

with atheris.instrument_imports(include=["cisco_acl"]):
    import cisco_acl  # noqa: F401,E402

from lib import harness  # noqa: E402

STATE = {"flushed": 0.0, "out": None, "count": 0, "nontrivial": 0, "invalid": 0, "seen": set(), "labels": {}}


def make_target(prop: str, subname: str, tier: str):
    from hypothesis import HealthCheck, Phase, given, settings

    mod = harness.load_check(prop)
    sub = next(s for s in mod.SUBS if s.name == subname)
    judge = harness.guarded(sub.judge)
    out = STATE["out"]

    @settings(database=None, deadline=None, suppress_health_check=list(HealthCheck), phases=[Phase.generate])
    @given(sub.strategy(tier))
    def test(case):
        try:
            v = judge(case)
        except harness.Invalid:
            STATE["invalid"] += 1
            return
        except harness.HarnessError as ex:
            if out:
                with open(os.path.join(out, "harness-error.txt"), "w") as fh:
                    fh.write(str(ex)[:4000] + "\n" + json.dumps(case, default=str)[:4000])
            return
        STATE["count"] += 1
        if v.nontrivial:
            STATE["nontrivial"] += 1
        for lab in v.labels:
            STATE["labels"][lab] = STATE["labels"].get(lab, 0) + 1
        if time.time() - STATE["flushed"] > 0.5:
            flush()
        for bucket, detail in v.fails:
            if bucket in STATE["seen"]:
                continue
            STATE["seen"].add(bucket)
            if out:
                name = hashlib.sha1(bucket.encode()).hexdigest()[:12]
                with open(os.path.join(out, f"finding-{name}.json"), "w") as fh:
                    json.dump({"bucket": bucket, "case": case, "detail": detail}, fh, default=str)

    return test.hypothesis.fuzz_one_input


def flush():
    STATE["flushed"] = time.time()
    if STATE["out"]:
        tmp = os.path.join(STATE["out"], "count.json.tmp")
        with open(tmp, "w") as fh:
            json.dump({k: STATE[k] for k in ("count", "nontrivial", "invalid", "labels")}, fh)
        os.replace(tmp, os.path.join(STATE["out"], "count.json"))


def main():
    argv = [sys.argv[0]]
    args = sys.argv[1:]
    opt = {"--prop": None, "--sub": None, "--tier": "thorough", "--out": None, "--seed-cases": "48"}
    i = 0
    while i < len(args):
        if args[i] in opt:
            opt[args[i]] = args[i + 1]
            i += 2
        else:
            argv.append(args[i])
            i += 1
    if opt["--out"]:
        STATE["out"] = opt["--out"]
        os.makedirs(STATE["out"], exist_ok=True)
    harness.capture()
    fuzz_one = make_target(opt["--prop"], opt["--sub"], opt["--tier"])

    def target(data: bytes):
        fuzz_one(data)

    # starting corpus: random byte strings decoded by Hypothesis; the canonical buffer it returns for each valid one
    # is saved, so that libFuzzer starts from inputs that decode into whole cases (short random inputs mostly overrun)
    corpus = next((a for a in argv[1:] if not a.startswith("-") and os.path.isdir(a)), None)
    seed = next((int(a.split("=")[1]) for a in argv[1:] if a.startswith("-seed=")), 1)
    if corpus and opt["--seed-cases"] != "0":
        import random

        rnd = random.Random(seed)
        for k in range(int(opt["--seed-cases"])):
            buf = rnd.randbytes(rnd.choice((128, 256, 512, 1024, 2048)))
            if k % 3 == 0:  # small values steer Hypothesis to early alternatives / short lists
                buf = bytes(b % 16 for b in buf)
            canon = fuzz_one(buf)
            if canon:
                with open(os.path.join(corpus, f"seed-{k:03d}"), "wb") as fh:
                    fh.write(canon[:2048])

    atheris.Setup(argv, target)
    atheris.Fuzz()


if __name__ == "__main__":
    main()
