#!/venv/bin/python
"""atheris (libFuzzer) target for C20: bytes -> structured (target, platform, text) -> the C20 oracle.

Usage (driven by checks/c20.py in the thorough tier, or by hand):
    fuzz_text.py --out DIR [--seed-corpus] CORPUS_DIR -runs=N -seed=S -max_total_time=T

Violations do not stop the campaign: every new bucket is written to DIR/<hash>.json (the reproducible
unit) and excluded from then on, so that the search continues behind shallow findings.
"""
import hashlib
import json
import os
import sys

VERIF = os.path.dirname(os.path.dirname(os.path.abspath(__file__)))
REPO = os.environ.get("VERIF_REPO", "/repo")
sys.path[:0] = [REPO, VERIF]
if os.path.isdir(os.path.join(VERIF, ".deps")):
    sys.path.append(os.path.join(VERIF, ".deps"))
sys.dont_write_bytecode = True

import atheris  # noqa: E402

with atheris.instrument_imports(include=["cisco_acl"]):
    import cisco_acl  # noqa: F401,E402

from lib import harness  # noqa: E402
from checks import c20  # noqa: E402

OUT = None
CUR = None  # file descriptor of OUT/current.json
SEEN = set()
COUNT = 0
NONTRIVIAL = 0
VOCAB = c20.vocabulary()
INDENTS = ["", " ", "  ", "   ", "\t", "        "]


def decode(data: bytes):
    fdp = atheris.FuzzedDataProvider(data)
    target = c20.TARGETS[fdp.ConsumeIntInRange(0, len(c20.TARGETS) - 1)]
    platform = ("ios", "nxos", "asa")[fdp.ConsumeIntInRange(0, 2)]
    parts = []
    for _ in range(fdp.ConsumeIntInRange(0, 24)):
        kind = fdp.ConsumeIntInRange(0, 9)
        if kind <= 4:
            parts.append(VOCAB[fdp.ConsumeIntInRange(0, len(VOCAB) - 1)])
        elif kind == 5:
            parts.append(str(fdp.ConsumeIntInRange(0, 70000)))
        elif kind == 6:
            parts.append("%d.%d.%d.%d" % tuple(fdp.ConsumeIntInRange(0, 260) for _ in range(4)))
        elif kind == 7:
            parts.append("\n" + INDENTS[fdp.ConsumeIntInRange(0, len(INDENTS) - 1)])
        elif kind == 8:
            parts.append(fdp.ConsumeUnicodeNoSurrogates(fdp.ConsumeIntInRange(0, 8)))
        else:
            parts.append(" ")
    sep = (" ", " ", "  ", "")[fdp.ConsumeIntInRange(0, 3)]
    text = sep.join(parts).replace(" \n", "\n")
    case = {"target": target, "platform": platform, "text": text}
    gb = fdp.ConsumeIntInRange(0, 4 * len(c20.GROUP_BY))
    if gb < len(c20.GROUP_BY) and target in ("Acl", "acls", "aces"):
        case["group_by"] = c20.GROUP_BY[gb]
    return case


def TestOneInput(data: bytes):
    global COUNT, NONTRIVIAL
    case = decode(data)
    if CUR is not None:
        # what is being evaluated right now: read by the driver if libFuzzer has to kill this process (-timeout)
        blob = json.dumps(case).encode()
        os.pwrite(CUR, blob + b" " * max(0, 4096 - len(blob)), 0)
    try:
        v = harness.guarded(c20.judge)(case)
    except harness.Invalid:
        return
    COUNT += 1
    if v.nontrivial:
        NONTRIVIAL += 1
    if COUNT % 500 == 0 and OUT:
        with open(os.path.join(OUT, "count.txt"), "w") as fh:
            fh.write(f"{COUNT} {NONTRIVIAL}")
    for bucket, detail in v.fails:
        if bucket in SEEN:
            continue
        SEEN.add(bucket)
        if OUT:
            name = hashlib.sha1(bucket.encode()).hexdigest()[:12]
            with open(os.path.join(OUT, f"finding-{name}.json"), "w") as fh:
                json.dump({"bucket": bucket, "case": case, "detail": detail}, fh, default=str)


def main():
    global OUT, CUR
    argv = [sys.argv[0]]
    args = sys.argv[1:]
    i = 0
    while i < len(args):
        if args[i] == "--out":
            OUT = args[i + 1]
            os.makedirs(OUT, exist_ok=True)
            i += 2
        else:
            argv.append(args[i])
            i += 1
    if OUT:
        CUR = os.open(os.path.join(OUT, "current.json"), os.O_RDWR | os.O_CREAT | os.O_TRUNC, 0o644)
    harness.capture()
    atheris.Setup(argv, TestOneInput)
    atheris.Fuzz()


if __name__ == "__main__":
    main()
