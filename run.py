#!/venv/bin/python
"""Single entry point: run.py <Cxx> <quick|thorough> | run.py --replay <file>.

Always tests the current working tree of /repo (pure Python: a fresh process and a fresh import).
Exit 0 = held on everything explored, 1 = VIOLATION line(s) printed, 2 = harness error.
"""
import os
import sys

VERIF = os.path.dirname(os.path.abspath(__file__))
REPO = os.environ.get("VERIF_REPO", "/repo")


def _reexec():
    if os.environ.get("PYTHONHASHSEED") != "0" or os.environ.get("_VERIF_CHILD") != "1":
        env = dict(os.environ, PYTHONHASHSEED="0", _VERIF_CHILD="1", PYTHONDONTWRITEBYTECODE="1",
                   CISCO_ACL_VERIF="1")
        os.execve(sys.executable, [sys.executable, "-B", os.path.abspath(__file__)] + sys.argv[1:], env)


def main() -> int:
    _reexec()
    sys.dont_write_bytecode = True
    deps = os.path.join(VERIF, ".deps")
    sys.path[:0] = [REPO, VERIF]
    try:
        import hypothesis  # noqa: F401
    except ImportError:
        import subprocess

        subprocess.run([sys.executable, os.path.join(VERIF, "setup.py")], check=False)
    if os.path.isdir(deps):
        sys.path.append(deps)
    try:
        import cisco_acl

        if not os.path.abspath(cisco_acl.__file__).startswith(os.path.abspath(REPO)):
            print(f"HARNESS-ERROR cisco_acl imported from {cisco_acl.__file__}", file=sys.stderr)
            return 2
    except Exception as ex:  # the tree under test does not even import
        print(f"HARNESS-ERROR cannot import cisco_acl from {REPO}: {type(ex).__name__}: {ex}", file=sys.stderr)
        return 2
    from lib import harness

    args = sys.argv[1:]
    if args and args[0] == "--replay":
        if len(args) != 2:
            print("usage: run.py --replay <file>", file=sys.stderr)
            return 2
        import json

        doc = json.load(open(args[1], encoding="utf-8"))
        buckets = harness.replay_file(args[1])
        known, _ = harness.load_known(doc["property"])
        new = [b for b in buckets if b not in known]
        for b in buckets:
            if b in known:
                print(f"KNOWN-FINDING: property={doc['property']} key={b} {known[b]}")
        if new:
            print(f"VIOLATION property={doc['property']} replay={os.path.abspath(args[1])}")
            return 1
        return 0
    if len(args) < 1:
        print(__doc__, file=sys.stderr)
        return 2
    prop = args[0].upper()
    tier = args[1] if len(args) > 1 else os.environ.get("VERIF_TIER", "quick")
    if tier not in ("quick", "thorough"):
        print(f"unknown tier {tier!r}", file=sys.stderr)
        return 2
    seed = int(os.environ.get("VERIF_SEED", "1") or 1)
    try:
        return harness.run_check(prop, tier, seed)
    except harness.HarnessError as ex:
        print(f"HARNESS-ERROR property={prop}\n{ex}", file=sys.stderr)
        return 2
    except Exception as ex:  # pylint: disable=broad-except
        import traceback

        print(f"HARNESS-ERROR property={prop} {type(ex).__name__}: {ex}\n{traceback.format_exc()}", file=sys.stderr)
        return 2


if __name__ == "__main__":
    sys.exit(main())
