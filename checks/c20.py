"""C20 Arbitrary text only ever yields an object or a documented value/type error."""
from __future__ import annotations

import ast
import glob
import os
import signal
import traceback

from hypothesis import strategies as st

from lib import gen as G
from lib.harness import REPO, Invalid, Sub, Verdict

PROPERTY = "C20"
LEVEL = "exploration"
RULE = ("cases: (target, platform, text) with target in the 11 exported constructors and acls / aces / addrgroups, "
        "platform in ios / nxos / asa, text = token soup over the vocabulary extracted from the library's own "
        "string constants (ast) + addresses, masks, out-of-range numbers, punctuation, random printable runs and "
        "newlines with random indentation; valid lines / ACLs / configurations that are truncated, permuted or "
        "have one token replaced; empty and whitespace-only input; size extremes of every recursive or regex "
        "front end (long token repetitions, thousands of leading numeric tokens, deep indentation). Oracle: the "
        "call returns or raises ValueError / TypeError (subclasses included) within a 30 s non-termination alarm; "
        "on ios / nxos whatever is returned renders text the same constructor accepts again. Buckets by (target, "
        "exception type, innermost library frame) resp. (target, kind of the first parse). Non-trivial: >= 3 "
        "tokens and the target returned an object or rejected the text at least two library frames deep; "
        "distinct by (target, platform, text)")
RULE += ". Directed classes added after the seeded-change rounds: group_by markers as free text; corpus configurations with nested group-object, link-type interface headings, one group name under both headings, classic numbered access-list lines, version-specific port numbers"
ASSUMPTIONS = ["ValueError / TypeError and their subclasses (NetmaskValueError, AddressValueError, InvalidVersion, "
               "NetportsValueError) are the documented errors",
               "the re-accept clause is judged on the documented platforms ios and nxos only",
               "a 30 s alarm detects non-termination; a hit is re-run three times before it counts"]

TARGETS = ["Ace", "Remark", "AceGroup", "Acl", "Address", "AddressAg", "AddrGroup", "Port", "Protocol", "Option",
           "Wildcard", "acls", "aces", "addrgroups"]
ALARM_S = 30


class _Timeout(Exception):
    pass


def _on_alarm(signum, frame):
    raise _Timeout()


GROUP_BY = ["= ", "*** ", "+++ ", "[", "(", ")", "\\", ".*", "a|b", " ", "?", "{2}", "remark", "=== ", "#", "$", "^x"]


def call_target(target: str, platform: str, text: str, group_by: str = ""):
    import cisco_acl as C

    fn = getattr(C, target)
    if group_by and target in ("Acl", "acls", "aces"):
        # the marker that starts a group heading is free text too
        return fn(text, platform=platform, group_by=group_by)
    if target == "Port":
        return fn(text, platform=platform, protocol="tcp")
    if target in ("acls", "aces", "addrgroups"):
        return fn(text, platform=platform)
    return fn(text, platform=platform)


def guarded_call(fn, *args):
    """('ok', value) | ('err', exc) | ('crash', exc, frame) | ('hang',)"""
    old = signal.signal(signal.SIGALRM, _on_alarm)
    signal.alarm(ALARM_S)
    try:
        return ("ok", fn(*args))
    except _Timeout:
        return ("hang",)
    except (ValueError, TypeError) as ex:
        return ("err", ex)
    except BaseException as ex:  # pylint: disable=broad-except
        if isinstance(ex, (KeyboardInterrupt, SystemExit)):
            raise
        frames = traceback.extract_tb(ex.__traceback__)
        inner = next((f"{os.path.basename(fr.filename)}:{fr.name}" for fr in reversed(frames)
                      if "/cisco_acl/" in fr.filename), "outside-library")
        return ("crash", ex, inner)
    finally:
        signal.alarm(0)
        signal.signal(signal.SIGALRM, old)


def depth_in_library(exc) -> int:
    return sum(1 for fr in traceback.extract_tb(exc.__traceback__) if "/cisco_acl/" in fr.filename)


def first_parse_kind(obj) -> str:
    name = type(obj).__name__
    if name == "Ace":
        return f"Ace-{obj.type}" + ("-options" if obj.option.line else "")
    if name in ("Address", "AddressAg"):
        if name == "AddressAg" and obj.platform == "ios" and obj.line.split()[-2:] == ["0.0.0.0", "0.0.0.0"]:
            # with or without a sequence number in front: one root cause, one listed finding
            return "AddressAg-ios-zero-mask"
        return f"{name}-{obj.type}"
    if name in ("Acl", "AceGroup", "AddrGroup"):
        return f"{name}-" + ("empty" if not obj.items else "items") + ("" if getattr(obj, "name", "x") else "-noname")
    if name == "Remark":
        return "Remark-" + ("empty" if not obj.text else "text")
    return name


def reaccept(v: Verdict, target, platform, obj, text):
    """Whatever was returned renders text that the same constructor accepts again."""
    import cisco_acl as C

    objs = obj if isinstance(obj, list) else [obj]
    for o in objs:
        cls = type(o)
        if cls.__name__ not in TARGETS:
            continue
        try:
            line = o.line
        except (ValueError, TypeError) as ex:
            v.fail(f"render:{target}:{cls.__name__}:line-raises-{type(ex).__name__}", {"text": text[:300], "platform": platform})
            continue
        kw = {"platform": platform}
        if cls is C.Port:
            kw["protocol"] = o.protocol or "tcp"
        if cls in (C.Acl, C.AceGroup) and getattr(o, "type", "") == "standard":
            kw["type"] = "standard"
        res = guarded_call(lambda: cls(line, **kw))
        if res[0] == "ok":
            continue
        kind = first_parse_kind(o)
        if res[0] == "err" and cls is C.AddrGroup:
            # a group is refused because of a member that is refused on its own: report the member (root cause),
            # so that one defect has one bucket whether it is met directly or through its container
            kinds = set()
            for m in o.items:
                if type(m).__name__ == "AddressAg" and guarded_call(lambda m=m: type(m)(m.line, platform=platform))[0] == "err":
                    kinds.add(first_parse_kind(m))
            if kinds:
                for k in sorted(kinds):
                    v.fail(f"reaccept:AddressAg:{k}", {"text": text[:300], "platform": platform, "rendered": line[:300],
                                                       "via": target, "error": f"{type(res[1]).__name__}: {res[1]}"[:200]})
                continue
        if res[0] == "err":
            v.fail(f"reaccept:{target}:{kind}", {"text": text[:300], "platform": platform, "rendered": line[:300],
                                                 "error": f"{type(res[1]).__name__}: {res[1]}"[:200]})
        elif res[0] == "crash":
            v.fail(f"crash-on-reaccept:{target}:{type(res[1]).__name__}@{res[2]}", {"text": text[:300], "rendered": line[:300]})
        else:
            v.fail(f"hang-on-reaccept:{target}", {"text": text[:300], "rendered": line[:300]})


def judge(case) -> Verdict:
    target, platform, text = case["target"], case["platform"], case["text"]
    if target not in TARGETS or platform not in ("ios", "nxos", "asa") or not isinstance(text, str):
        raise Invalid()
    group_by = case.get("group_by") or ""
    if not isinstance(group_by, str) or len(group_by) > 20 or "\n" in group_by:
        raise Invalid()
    v = Verdict()
    res = guarded_call(call_target, target, platform, text, group_by)
    ntok = len(text.split())
    v.label(target, platform)
    if res[0] == "hang":
        again = [guarded_call(call_target, target, platform, text, group_by)[0] for _ in range(3)]
        if all(a == "hang" for a in again):
            v.fail(f"hang:{target}", {"text": text[:200], "len": len(text), "platform": platform})
        return v
    if res[0] == "crash":
        ex = res[1]
        v.fail(f"crash:{target}:{type(ex).__name__}@{res[2]}", {"text": text[:400], "len": len(text), "platform": platform,
                                                                "error": f"{type(ex).__name__}: {str(ex)[:200]}"})
        return v
    if res[0] == "err":
        v.label("rejected")
        v.nt(ntok >= 3 and depth_in_library(res[1]) >= 2)
        return v
    v.label("returned")
    v.nt(ntok >= 3)
    if platform in ("ios", "nxos"):
        reaccept(v, target, platform, res[1], text)
    return v


# --------------------------------------------------------------------------------------- vocabulary
_VOCAB = None


def vocabulary():
    global _VOCAB
    if _VOCAB is None:
        words = set()
        for path in sorted(glob.glob(os.path.join(REPO, "cisco_acl", "*.py"))):
            try:
                tree = ast.parse(open(path, encoding="utf-8").read())
            except SyntaxError:
                continue
            for node in ast.walk(tree):
                if isinstance(node, ast.Constant) and isinstance(node.value, str) and len(node.value) <= 40 and "\n" not in node.value:
                    for tok in node.value.split():
                        if len(tok) <= 24:
                            words.add(tok)
                    if 0 < len(node.value) <= 30:
                        words.add(node.value.strip())
        words.discard("")
        extra = ["permit", "deny", "remark", "ip", "tcp", "udp", "icmp", "any", "host", "eq", "neq", "lt", "gt", "range",
                 "log", "log-input", "established", "ack", "syn", "object-group", "addrgroup", "group-object",
                 "ip access-list", "ip access-list extended", "ip access-list standard", "access-list", "access-list 101", "object-group network",
                 "object-group ip address", "interface", "ip access-group", "in", "out", "description", "statistics",
                 "_config_", "END_OF_CONFIG", "!", "0", "1", "10", "255", "256", "65535", "65536", "4294967295",
                 "4294967296", "-1", "1.1.1.1", "10.0.0.0", "0.0.0.255", "255.255.255.0", "0.0.0.0", "255.255.255.255",
                 "10.0.0.0/24", "10.0.0.1/32", "0.0.0.0/0", "10.0.0.0/33", "300.1.1.1", "1.1.1", "1.1.1.1.1", "0.255.0.255",
                 "85.85.85.85", "www", "bgp", "NAME", "A-1", "?", "/", ".", "-", "a" * 101,
                 "n" * 40, "N0" * 28, "(old)", "\u2013", "\u00e9", "{server_ip}", "${dns}", "{0}", "{", "}", "%s", "%(x)s"]
        _VOCAB = sorted(words | set(extra))
    return _VOCAB


VALID = {
    "Ace": ["10 permit tcp host 10.0.0.1 eq 179 10.0.0.0 0.0.0.3 eq 80 443 log", "permit ip any any",
            "deny udp 10.0.0.0/24 gt 1023 any range 10 20", "permit icmp object-group A addrgroup B",
            "permit host 1.1.1.1", "deny 10.0.0.0 0.0.0.255 log", "permit tcp any any established",
            "permit tcp any range 80 80 any range www 80", "permit udp any eq 53 53 any neq 7 7", "permit 255 any any fragments",
            "4294967295 permit tcp 100.100.100.100/32 range 496 2049 200.200.200.200/32 range 496 2049 ack log",
            "4294967295 deny udp 100.100.100.0/25 eq 434 4500 138 137 200.200.200.0/25 eq 4500 434 log-input",
            "1000000 permit tcp 10.100.100.0 0.0.0.255 eq 496 179 194 543 10.200.200.128/25 eq 544 515 517 log"],
    "Remark": ["remark text", "10 remark = H1, text"],
    "AceGroup": ["remark x\npermit ip any any\n deny tcp any any eq 80", "10 permit icmp any any\n20 deny ip any any"],
    "Acl": ["ip access-list extended A\n 10 remark x\n 20 permit ip any any\n 30 deny tcp any any eq 80 log",
            "ip access-list standard S\n permit host 1.1.1.1\n deny any", "ip access-list N\n permit ip 10.0.0.0/8 any"],
    "Address": ["any", "host 10.0.0.1", "10.0.0.0 0.0.0.255", "10.0.0.0/24", "object-group NAME", "addrgroup NAME",
                "10.0.0.0 0.0.3.3"],
    "AddressAg": ["host 10.0.0.1", "10.0.0.0 255.255.255.0", "10 10.0.0.0/24", "group-object NAME", "20 10.0.0.0 0.0.0.255"],
    "AddrGroup": ["object-group network A\n host 10.0.0.1\n 10.0.0.0 255.255.255.0\n description d",
                  "object-group ip address B\n 10 host 1.1.1.1\n 20 10.0.0.0/24"],
    "Port": ["eq www 443", "neq 1", "range 1 3", "lt 5", "gt 65534", "range 7 7", "range www 80", "eq 80 80", "lt 1", "gt 65535"],
    "Protocol": ["tcp", "0", "255", "ahp"],
    "Option": ["ack log", "dscp ef", "established"],
    "Wildcard": ["10.0.0.0 0.0.0.3", "1.2.3.4 0.255.0.255"],
}
CONFIG = ("hostname R1\n!\nip access-list extended A1\n 10 remark x\n 20 permit ip object-group G any\n"
          "object-group network G\n host 10.0.0.1\n 10.0.0.0 255.255.255.0\ninterface Ethernet1\n ip address 1.1.1.1 255.0.0.0\n"
          " ip access-group A1 in\nrouter bgp 1\n address-family ipv4\n  network 10.0.0.0\nip access-list A2\n permit ip 10.0.0.0/8 any\n"
          "object-group ip address H\n 10 host 1.1.1.1\n")
CONFIG2 = ("ip access-list extended EDGE\n permit ip object-group SRV any\n deny ip any any log\n"
           "object-group network SRV\n host 10.0.0.1\n group-object DB\n 10.1.0.0 255.255.0.0\n"
           "object-group network DB\n host 10.2.0.1\n"
           "interface Serial0/0.1 point-to-point\n ip address 10.9.9.1 255.255.255.252\n ip access-group EDGE in\n"
           "interface ATM1/0.100 multipoint\n ip access-group EDGE out\n"
           "interface Vlan10\n description uplink to core\n ip access-group MISSING in\n")
# one group name under both kinds of heading, referenced with both keywords; the same ACL name twice
CONFIG3 = ("object-group network G\n host 10.0.0.1\n 10.1.0.0 255.255.0.0\nobject-group ip address G\n 10 host 1.1.1.1\n 20 10.2.0.0/16\n"
           "ip access-list extended A\n permit ip object-group G any\n permit tcp any object-group G eq 135\n"
           "ip access-list B\n 10 permit ip addrgroup G any\n 20 permit udp any addrgroup G eq 521\n"
           "ip access-list extended A\n deny ip any any\n")
for _t in ("acls", "aces", "addrgroups"):
    VALID[_t] = [CONFIG, CONFIG2, CONFIG3] + VALID["Acl"] + VALID["AddrGroup"]
# port numbers that carry a name in some platform / version table only
VALID["Ace"] += ["permit tcp any any eq 135", "permit tcp any eq 15001 any eq 15002 log", "permit udp any any eq 521",
                 "permit tcp any eq 3949 any eq 514", "permit udp any eq 514 any range 135 15001"]
VALID["Port"] += ["eq 135", "eq 15001 15002", "range 514 3949"]
# classic numbered lists and other lines that start like a header
CONFIG4 = ("access-list 101 permit ip any any\naccess-list 101\naccess-list compiled\naccess-list 10 permit host 1.1.1.1\n"
           "ip access-list extended 101\n permit ip any any\nip access-list\nip access-list extended\naccess-list\n"
           "interface Ethernet1\n ip access-group 101 in\n")
for _t in ("acls", "aces", "addrgroups"):
    VALID[_t].append(CONFIG4)


@st.composite
def soup_st(draw, tier):
    target = draw(st.sampled_from(TARGETS))
    platform = draw(st.sampled_from(["ios", "ios", "nxos", "nxos", "asa"]))
    vocab = vocabulary()
    mode = draw(st.sampled_from(["soup", "soup", "mutate", "mutate", "mutate", "valid", "blank", "printable"]))
    multiline = target in ("AceGroup", "Acl", "AddrGroup", "acls", "aces", "addrgroups")
    word = st.one_of(st.sampled_from(vocab), st.sampled_from(vocab), st.integers(-1, 70000).map(str),
                     st.sampled_from(G.named_anywhere()).map(str),
                     st.text(alphabet=G.REMARK_ALPHABET + " \t", min_size=0, max_size=6))
    if mode == "blank":
        text = draw(st.sampled_from(["", " ", "\n", "\t", " \n \n", "\n\n"]))
    elif mode == "valid":
        text = draw(st.sampled_from(VALID[target]))
    elif mode == "printable":
        text = draw(st.text(alphabet=st.characters(min_codepoint=9, max_codepoint=126), max_size=60))
    elif mode == "soup":
        nlines = draw(st.integers(1, 6)) if multiline else 1
        lines = []
        for _ in range(nlines):
            toks = draw(st.lists(word, min_size=0, max_size=9))
            ind = draw(st.sampled_from(["", "", " ", "  ", "    ", "\t"])) if multiline else ""
            lines.append(ind + draw(st.sampled_from([" ", " ", "  "])).join(toks))
        text = "\n".join(lines)
    else:
        base = draw(st.sampled_from(VALID[target]))
        lines = base.split("\n")
        for _ in range(draw(st.integers(1, 3))):
            how = draw(st.sampled_from(["replace", "replace", "drop", "dup", "trunc", "swap", "insert", "indent", "dropline"]))
            li = draw(st.integers(0, len(lines) - 1))
            toks = lines[li].split(" ")
            ti = draw(st.integers(0, max(0, len(toks) - 1)))
            if how == "replace" and toks:
                toks[ti] = draw(word)
            elif how == "drop" and toks:
                toks.pop(ti)
            elif how == "dup" and toks:
                toks.insert(ti, toks[ti])
            elif how == "trunc":
                toks = toks[:ti]
            elif how == "swap" and len(toks) > 1:
                tj = draw(st.integers(0, len(toks) - 1))
                toks[ti], toks[tj] = toks[tj], toks[ti]
            elif how == "insert":
                toks.insert(ti, draw(word))
            elif how == "indent":
                toks = [draw(st.sampled_from(["", " ", "   ", "\t"]))] + [t for t in toks if t]
            elif how == "dropline" and len(lines) > 1:
                lines.pop(li)
                continue
            lines[li] = " ".join(toks)
        if draw(st.integers(0, 5)) == 0:
            lines = draw(st.permutations(lines))
        text = "\n".join(lines)
    case = {"target": target, "platform": platform, "text": text}
    if target in ("Acl", "acls", "aces") and draw(st.sampled_from(range(4))) == 1:
        case["group_by"] = draw(st.one_of(st.sampled_from(GROUP_BY), st.text(alphabet=G.REMARK_ALPHABET + " \\^$", min_size=1, max_size=4)))
        if draw(st.booleans()) and "\n" in text:
            # a remark that starts with the marker, so that the marker is actually used
            lines = text.split("\n")
            lines.insert(draw(st.integers(1, len(lines))), " remark " + case["group_by"] + "WEB")
            case["text"] = "\n".join(lines)
    return case


# --------------------------------------------------------------------------------------- size extremes
def enum_extremes(tier, shard, nshards):
    big = 20000 if tier == "thorough" else 4000
    nums = 3000 if tier == "thorough" else 1500
    deep = 1500 if tier == "thorough" else 700
    shapes = {
        "any-run": lambda n: "permit ip " + "any " * n,
        "num-run": lambda n: "1 " * min(n, nums) + "permit ip any any",
        "host-run": lambda n: "permit ip " + "host 1.1.1.1 " * n,
        "octet-run": lambda n: "permit ip " + "1.1.1.1 " * n,
        "opt-run": lambda n: "permit ip any any " + "log " * n,
        "port-run": lambda n: "permit tcp any any eq " + "80 " * n,
        "space-run": lambda n: "permit" + " " * n + "ip any any",
        "digit-run": lambda n: "9" * n + " permit ip any any",
        "remark-run": lambda n: "remark " + "x " * n,
        "dots": lambda n: "1." * n,
        "slash": lambda n: "10.0.0.0/" + "3" * n,
        "lines": lambda n: "\n".join(["permit ip any any"] * min(n, 2000)),
        "deep-indent": lambda n: "\n".join(" " * i + f"level {i}" for i in range(min(n, deep))),
        "deep-indent-acl": lambda n: "ip access-list extended A\n" + "\n".join(" " * (i + 1) + "permit ip any any" for i in range(min(n, deep))),
        "long-name-blank": lambda n: "ip access-list extended " + "n" * 60 + " (old)\n permit ip any any",
        "long-name-dash": lambda n: "ip access-list extended " + "N0" * 30 + "\u2013x\n permit ip any any",
        "long-group-name": lambda n: "object-group network " + "g" * 70 + " old version\n host 10.0.0.1",
        "long-group-ref": lambda n: "permit ip object-group " + "G" * 64 + "\u00e9 any",
        "long-addr-ref": lambda n: "object-group " + "a1" * 40 + " any",
        "config-key": lambda n: "_config_\n permit ip any any\nip access-list extended A\n permit ip any any",
    }
    idx = 0
    for name in sorted(shapes):
        text = shapes[name](big)
        for target in TARGETS:
            for platform in ("ios", "nxos"):
                if idx % nshards == shard:
                    prefix = ""
                    if target in ("Acl", "acls") and not text.startswith(("ip access-list", "_config_")):
                        prefix = "ip access-list extended A\n " if platform == "ios" else "ip access-list A\n "
                    if target == "AddrGroup" and name in ("host-run", "octet-run", "lines", "deep-indent"):
                        prefix = "object-group network G\n " if platform == "ios" else "object-group ip address G\n "
                    yield {"target": target, "platform": platform, "text": prefix + text, "shape": name}
                idx += 1


def judge_extreme(case) -> Verdict:
    v = judge(case)
    v.key = [case["target"], case["platform"], case.get("shape"), len(case["text"])]
    v.sample = {"target": case["target"], "platform": case["platform"], "shape": case.get("shape"), "len": len(case["text"])}
    v.label(f"shape={case.get('shape')}")
    return v


def atheris_runner(tier, shard, nshards, seed, deadline, absorb):
    """One libFuzzer job: half of the shards start from an empty corpus, half from valid texts."""
    import json
    import shutil
    import subprocess
    import sys
    import tempfile
    import time

    work = tempfile.mkdtemp(prefix="c20-atheris-")
    corpus, out = os.path.join(work, "corpus"), os.path.join(work, "out")
    os.makedirs(corpus)
    os.makedirs(out)
    seeded = shard % 2 == 1
    if seeded:
        k = 0
        for target, texts in VALID.items():
            for text in texts:
                with open(os.path.join(corpus, f"seed{k}"), "wb") as fh:
                    fh.write(bytes([TARGETS.index(target) % 256, 0, 6]) + text.encode()[:200])
                k += 1
    default = "240" if tier == "thorough" else "12"
    budget = max(5, min(int(os.environ.get("VERIF_ATHERIS_S", default)), int(deadline - time.time()) - 60))
    verif = os.path.dirname(os.path.dirname(os.path.abspath(__file__)))
    cmd = [sys.executable, "-B", os.path.join(verif, "fuzz", "fuzz_text.py"), "--out", out, corpus,
           f"-seed={seed % 2147483647 or 1}", f"-max_total_time={budget}", "-max_len=512", "-print_final_stats=0",
           "-timeout=150", f"-artifact_prefix={out}/"]
    try:
        subprocess.run(cmd, stdout=subprocess.DEVNULL, stderr=subprocess.DEVNULL, timeout=budget + 120, check=False,
                       env=dict(os.environ, PYTHONHASHSEED="0"))
    except subprocess.TimeoutExpired:
        pass
    execs, nontriv = 0, 0
    try:
        execs, nontriv = [int(x) for x in open(os.path.join(out, "count.txt")).read().split()]
    except (OSError, ValueError):
        pass
    nfind = 0
    hung = None
    if any(name.startswith("timeout-") for name in os.listdir(out)):
        # libFuzzer killed the job on one input (its C-level alarm also interrupts code that Python signals cannot)
        try:
            hung = json.loads(open(os.path.join(out, "current.json")).read().strip() or "null")
        except (OSError, ValueError):
            hung = None
    for name in sorted(os.listdir(out)):
        if name.startswith("finding-"):
            doc = json.load(open(os.path.join(out, name)))
            absorb(doc["case"])  # re-judged in this process: only reproducible findings count
            nfind += 1
    shutil.rmtree(work, ignore_errors=True)
    if hung is not None:
        absorb(hung)  # evaluated here under the parent's watchdog: it ends as a hang-watchdog violation if it stalls again
    return {"executions": execs, "labels": {"atheris-executions": execs, "atheris-nontrivial": nontriv,
                                            "atheris-findings-rejudged": nfind,
                                            "corpus-seeded" if seeded else "corpus-empty": 1}}


SUBS = [
    Sub("soup", judge, strategy=soup_st, quick=12000, thorough=200000, shards_thorough=64, watchdog=True),
    Sub("atheris", judge, runner=atheris_runner, quick=1, thorough=1, shards_quick=4, shards_thorough=16,
        minimise=True, watchdog=True),
    Sub("extremes", judge_extreme, enum=enum_extremes, quick=1, thorough=1, shards_quick=16, shards_thorough=32,
        minimise=False, watchdog=True),
]
BUDGET_QUICK = 400
BUDGET_THOROUGH = 3000

KNOWN_WITNESS = {
    "reaccept:Acl:Acl-empty-noname": ("soup", {"target": "Acl", "platform": "ios", "text": ""}),
    "reaccept:Remark:Remark-empty": ("soup", {"target": "Remark", "platform": "ios", "text": ""}),
    "reaccept:addrgroups:AddrGroup-empty": ("soup", {"target": "addrgroups", "platform": "ios",
                                                     "text": "object-group network A\n description d"}),
    "reaccept:AddressAg:AddressAg-ios-zero-mask": ("soup", {"target": "AddressAg", "platform": "ios",
                                                            "text": "10.0.0.1 0.0.0.0"}),
}

MANIFEST = {
    "engine": "hypothesis + atheris (coverage-guided campaign: 4 jobs x 12 s in the quick tier, 16 jobs x 240 s in the thorough tier, fuzz/fuzz_text.py)",
    "technique": "property-based fuzzing: Hypothesis token-soup / mutated-valid-text generators over a vocabulary extracted from the library source, enumerated size extremes of every recursive or regex front end, exception bucketing by innermost library frame, and a coverage-guided atheris (libFuzzer) campaign through a structured decoder",
    "text": "exploration: tens of thousands (quick) / hundreds of thousands (thorough) generated texts through the 11 constructors and 3 config functions on ios / nxos / asa returned or raised ValueError/TypeError within the non-termination alarm, and every returned object rendered text its constructor accepted again, apart from the listed known findings",
    "note": "trusted: the 30 s alarm as non-termination detector (re-run 3 times); re-accept clause judged on ios and nxos only; cannot prove termination or absence of catastrophic backtracking, only bound it on generated and adversarially repeated inputs",
}
