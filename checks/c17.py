"""C17 Any sequence of public operations keeps an ACL consistent with a reference model (model-based)."""
from __future__ import annotations

import itertools

from hypothesis import strategies as st

from lib import acehelp as A
from lib import gen as G
from lib import refsem as R
from lib.harness import Invalid, Sub, Verdict
from checks.c19 import expected_run

PROPERTY = "C17"
LEVEL = "exploration"
RULE = ("histories: an initial generated ACL (<= 8 lines, plain addresses and group references with members, "
        "distinct headings, no multi-port neq, no empty port sets) followed by an op list over 18 public "
        "operations with generated arguments (platform, port_nr, protocol_nr, resequence, group, ungroup, "
        "resequence+shuffle+sort, reverse, insert, append, pop, remove, copy, export/import, re-parse, "
        "delete_shadow(skip), ungroup_ports, indent); thorough additionally enumerates ALL sequences of length "
        "<= 3 over a fixed alphabet of 22 concrete operations from 6 seed ACLs. The model is history-free: a flat "
        "list of records transformed by the documented effect of each operation. Invariants after EVERY step: "
        "the text re-parses to itself, the independent strict reader sees exactly the model's ordered rule list "
        "(by meaning) / remarks / numbers / header, data() rebuilds the same text, attached group members equal "
        "the model's. Non-trivial: >= 3 applied operations of >= 2 kinds incl. a structure-changing one; "
        "distinct by canonical history")
RULE += ". Directed classes added after the seeded-change rounds: operations twin / sort_twice / append_remove / fill_in_place; ACLs of 2-3 independent cover pairs in six interleavings with early shadow removal; platform aliases, versions, 17-bit wildcards under a raised limit"
ASSUMPTIONS = ["model = documentation of each operation (DESIGN.md 3, C17); conversion keeps meaning and splits "
               "multi-port eq on NX-OS; delete_shadow drops every ACE with an earlier same-action ACE that covers it "
               "(exact inclusion for plain addresses, member-wise prefix inclusion for group addresses)",
               "list operations are generated only on ungrouped ACLs; a re-parse forgets attached group members"]

STRUCTURAL = {"platform", "group", "delete_shadow", "ungroup_ports", "reparse", "copy", "export_import", "fill_in_place"}
SKIPS = [None, ["addrgroup"], ["nc_wildcard"]]


# --------------------------------------------------------------------------------------- model
def split_eq(rec):
    if any(rec.get(s) and rec[s]["op"] == "eq" and len(rec[s]["v"]) > 1 for s in ("sp", "dp")):
        out = []
        for r in expected_run(rec):
            out.append(r)
        return out
    return [rec]


def _expand(pairs):
    return [(n, ln) for p in pairs for n, ln in R.pair_prefixes(p)]


def memberwise_cover(bottom_pairs, top_pairs) -> bool:
    """The documented rule: every prefix of the bottom lies inside one prefix of the top."""
    tops, bots = _expand(top_pairs), _expand(bottom_pairs)
    if not tops or not bots:
        return False
    for bn, bl in bots:
        if not any(tl <= bl and (bn >> (32 - tl) if tl else 0) == (tn >> (32 - tl) if tl else 0) for tn, tl in tops):
            return False
    return True


def model_cover(bottom, top, skip) -> bool:
    if bottom["action"] != top["action"]:
        return False
    skip = skip or []
    group = G.rec_has_group(bottom) or G.rec_has_group(top)
    if "addrgroup" in skip and group:
        return False
    if "nc_wildcard" in skip and (G.rec_nc(bottom) or G.rec_nc(top)):
        return False
    rb, rt = G.rec_rule(bottom), G.rec_rule(top)
    if not group:
        return R.rule_subset(rb, rt)
    # same components as rule_subset, addresses by the member-wise rule
    plain_b = dict(bottom, src={"k": "any", "b": 0, "w": R.ALL1}, dst={"k": "any", "b": 0, "w": R.ALL1})
    plain_t = dict(top, src={"k": "any", "b": 0, "w": R.ALL1}, dst={"k": "any", "b": 0, "w": R.ALL1})
    if not R.rule_subset(G.rec_rule(plain_b), G.rec_rule(plain_t)):
        return False
    return memberwise_cover(rb.src.pairs(), rt.src.pairs()) and memberwise_cover(rb.dst.pairs(), rt.dst.pairs())


class State:
    def __init__(self, acl_case):
        self.platform = acl_case["platform"]
        self.port_nr = bool(acl_case.get("port_nr"))
        self.protocol_nr = bool(acl_case.get("protocol_nr"))
        self.group_by = acl_case.get("group_by") or ""
        self.indent = acl_case.get("indent") or "  "
        self.name = acl_case["name"]
        self.version = acl_case.get("version", "0")
        self.max_ncwb = acl_case.get("max_ncwb")
        self.wide = any(it["t"] == "ace" and any(len(R.nc_bits(it["rec"][sd]["w"])) > 8 for sd in ("src", "dst")
                                                 if it["rec"][sd]["k"] == "wild") for it in acl_case["items"])
        self.prefix = acl_case.get("prefix") or "= "
        self.flat = [dict(it, rec=dict(it["rec"])) if it["t"] == "ace" else dict(it) for it in acl_case["items"]]
        self.acl = A.build_acl(dict(acl_case, indent=self.indent))

    def kwargs(self):
        kw = dict(platform=self.platform, indent=self.indent)
        if self.port_nr:
            kw["port_nr"] = True
        if self.protocol_nr:
            kw["protocol_nr"] = True
        if self.group_by:
            kw["group_by"] = self.group_by
        if self.version != "0":
            kw["version"] = self.version
        if self.max_ncwb is not None:
            kw["max_ncwb"] = self.max_ncwb
        return kw

    def has_groups(self):
        return any(it["t"] == "ace" and G.rec_has_group(it["rec"]) for it in self.flat)


def new_item(spec, platform):
    if spec["t"] == "rem":
        return dict(spec)
    G.validate_rec(spec["rec"], platform)
    rec = G.to_native(spec["rec"], platform)
    if platform == "nxos":
        for s in ("sp", "dp"):
            if rec.get(s) and rec[s]["op"] in ("eq", "neq") and len(rec[s]["v"]) > 1:
                rec[s] = dict(rec[s], v=rec[s]["v"][:1], nm=rec[s]["nm"][:1])
    return {"t": "ace", "rec": rec}


def lib_item(item, st_: State):
    from cisco_acl import Ace, Remark

    if item["t"] == "rem":
        return Remark(G.item_line(item, st_.platform), platform=st_.platform, version=st_.version)
    # the new entry is created for the ACL's own platform and version (names are spelled from that table)
    ace = Ace(G.render_ace(item["rec"], st_.platform, st_.version, noise=False), platform=st_.platform,
              version=st_.version, port_nr=st_.port_nr, protocol_nr=st_.protocol_nr,
              **({"max_ncwb": st_.max_ncwb} if st_.max_ncwb is not None else {}))
    A.attach_members(ace, item["rec"])
    return ace


def apply(op, s: State, v: Verdict):
    """Apply one operation to the library object and to the model. Returns the op name or None (skipped)."""
    name = op[0]
    acl = s.acl
    n = len(s.flat)
    if name == "platform":
        spelled = op[1]
        p = next((k for k, al in G.PLATFORM_ALIASES.items() if spelled in al), None)
        if p is None:
            raise Invalid()
        acl.platform = spelled  # any documented spelling of the platform name
        s.platform = p
        if p == "nxos":
            s.flat = [dict(it, rec=r) if it["t"] == "ace" else it for it in s.flat
                      for r in (split_eq(it["rec"]) if it["t"] == "ace" else [None])]
    elif name == "port_nr":
        acl.port_nr = bool(op[1])
        s.port_nr = bool(op[1])
    elif name == "protocol_nr":
        acl.protocol_nr = bool(op[1])
        s.protocol_nr = bool(op[1])
    elif name == "resequence":
        start, step = op[1], op[2]
        if not (0 <= start <= 10000 and 1 <= step <= 1000):
            raise Invalid()
        if n == 0:
            return None
        ret = acl.resequence(start, step)
        for i, it in enumerate(s.flat):
            val = 0 if start == 0 else start + i * step
            if it["t"] == "ace":
                it["rec"]["seq"] = val
            else:
                it["seq"] = val
        want = 0 if start == 0 else start + (n - 1) * step
        if ret != want:
            v.fail("op:resequence:return-value", {"ret": ret, "want": want})
    elif name == "group":
        acl.group(s.prefix)
        s.group_by = s.prefix
    elif name == "ungroup":
        acl.ungroup()
        s.group_by = ""
    elif name == "shuffle_sort":
        if n < 2:
            return None
        start, step = op[2], op[3]
        if not (1 <= start <= 10000 and 1 <= step <= 1000):
            raise Invalid()
        acl.resequence(start, step)
        for i, it in enumerate(s.flat):
            if it["t"] == "ace":
                it["rec"]["seq"] = start + i * step
            else:
                it["seq"] = start + i * step
        objs = list(acl.items)
        order = list(range(len(objs)))
        perm = op[1] or [0]
        for i in range(len(order) - 1, 0, -1):
            j = perm[i % len(perm)] % (i + 1)
            order[i], order[j] = order[j], order[i]
        acl.items[:] = [objs[k] for k in order]
        acl.sort()
    elif name == "reverse":
        if s.group_by or any(type(o).__name__ == "AceGroup" for o in acl.items):
            return None
        acl.reverse()
        s.flat.reverse()
    elif name == "append_remove":
        # a new object with the text of an existing entry is appended, then removed BY VALUE: list.remove() takes the
        # first top-level item that equals it - an entry, never a block that merely renders the same single line
        if n < 1:
            return None
        it = s.flat[op[1] % n]
        if it["t"] == "rem" and it["text"].startswith(s.prefix):
            return None
        item = {"t": it["t"], **({"rec": dict(it["rec"])} if it["t"] == "ace" else {"text": it["text"], "seq": it.get("seq", 0)})}
        obj = lib_item(item, s)
        acl.append(obj)
        tops = list(acl.items)
        first = next((k for k, o in enumerate(tops) if type(o) is type(obj) and o.line == obj.line), None)
        if first is None:
            # the appended entry is not a top-level item afterwards (absorbed into a block, dropped, or re-typed)
            v.fail("op:append:new-item-not-at-top-level", {"appended": obj.line, "after": [f"{type(o).__name__}:{o.line}" for o in tops]})
            return name
        acl.remove(obj)
        if len(acl.items) != len(tops) - 1 or any(a is not b for a, b in zip(acl.items, tops[:first] + tops[first + 1:])):
            v.fail("op:remove-by-value:took-another-item", {"removed_text": obj.line, "before": [o.line for o in tops],
                                                           "after": [o.line for o in acl.items]})
            return name
        if first != len(tops) - 1:
            # the earlier equal entry went, the new object stays at the end (only possible among plain top-level items)
            flat_first = 0
            for k, o in enumerate(tops[:first]):
                flat_first += len(list(A.flat_items([o])))
            s.flat.pop(flat_first)
            s.flat.append(item)
    elif name == "twin":
        # a copy of one entry that differs in the destination port only, placed next to it
        if s.group_by or n < 1 or any(type(o).__name__ == "AceGroup" for o in acl.items):
            return None
        i = op[1] % n
        it = s.flat[i]
        if it["t"] != "ace" or it["rec"]["proto"] not in (6, 17) or not isinstance(op[2], int) or not 1 <= op[2] <= 65535:
            return None
        rec = dict(it["rec"], dp={"op": "eq", "v": [op[2]], "nm": [0]})
        item = {"t": "ace", "rec": rec}
        obj = lib_item(item, s)
        acl.insert(i + 1, obj)
        s.flat.insert(i + 1, item)
    elif name == "sort_twice":
        # sort() of entries in whatever numbering they have: the order itself is the library's business, but it is a
        # permutation of the entries and sorting the sorted list again changes nothing
        if s.group_by or n < 2 or any(type(o).__name__ == "AceGroup" for o in acl.items):
            return None
        acl.sort()
        once = [o.line for o in acl.items]
        acl.sort()
        twice = [o.line for o in acl.items]
        if once != twice:
            v.fail("op:sort:sorting-a-sorted-list-changes-it", {"once": once, "twice": twice})
            return name
        try:
            _, got = G.read_flat(acl.line, s.platform, s.version, strict=False)
        except R.RefError:
            return name  # reported by the invariants
        want = G.flat_meaning({"items": s.flat})
        used, order = set(), []
        for g in got:
            k = next((j for j, w in enumerate(want) if j not in used and w == g), None)
            if k is None:
                v.fail("op:sort:entries-changed", {"text": acl.line})
                return name
            used.add(k)
            order.append(k)
        if len(order) == len(s.flat):
            s.flat = [s.flat[k] for k in order]
    elif name == "fill_in_place":
        # build the ACL the way cisco_acl.aces() does: empty object with the same settings, items appended in place
        from cisco_acl import Acl

        fresh = Acl(name=s.name, **s.kwargs())
        for obj in A.flat_items(acl.items):
            fresh.items.append(obj.copy())
        s.acl = fresh
    elif name in ("insert", "append"):
        if name == "insert" and (s.group_by or any(type(o).__name__ == "AceGroup" for o in acl.items)):
            return None  # (append is position-independent: the new entry is the last rendered line in any structure)
        item = new_item(op[2] if name == "insert" else op[1], s.platform)
        if item["t"] == "rem" and item["text"].startswith(s.prefix):
            return None
        obj = lib_item(item, s)
        if name == "insert":
            i = op[1] % (n + 1)
            acl.insert(i, obj)
            s.flat.insert(i, item)
        else:
            acl.append(obj)
            s.flat.append(item)
    elif name in ("pop", "remove"):
        if s.group_by or n < 2 or any(type(o).__name__ == "AceGroup" for o in acl.items):
            return None
        i = op[1] % n
        if name == "pop":
            acl.pop(i)
            s.flat.pop(i)
        else:
            target = acl.items[i]
            first = next(k for k, o in enumerate(acl.items) if o == target)  # list.remove takes the first equal item
            acl.remove(target)
            s.flat.pop(first)
    elif name == "copy":
        s.acl = acl.copy()
    elif name == "export_import":
        from cisco_acl import Acl

        s.acl = Acl(**acl.data())
    elif name == "reparse":
        from cisco_acl import Acl

        s.acl = Acl(acl.line, **s.kwargs())
        for it in s.flat:
            if it["t"] == "ace":
                it["rec"] = G.strip_members(it["rec"])
    elif name == "delete_shadow":
        if s.wide:
            return None  # prefix expansion of a >8-bit non-contiguous wildcard: bounded out (DESIGN.md section 5)
        skip = SKIPS[op[1] % len(SKIPS)]
        if skip == ["nc_wildcard"] and s.has_groups():
            skip = None
        acl.delete_shadow(skip)
        keep = []
        for i, it in enumerate(s.flat):
            if it["t"] == "ace" and any(t["t"] == "ace" and model_cover(it["rec"], t["rec"], skip) for t in s.flat[:i]):
                continue
            keep.append(it)
        s.flat = keep
    elif name == "ungroup_ports":
        acl.ungroup_ports()
        s.flat = [dict(it, rec=r) if it["t"] == "ace" else it for it in s.flat
                  for r in (split_eq(it["rec"]) if it["t"] == "ace" else [None])]
    elif name == "indent":
        if op[1] not in (" ", "  ", "   ", "\t"):
            raise Invalid()
        acl.indent = op[1]
        s.indent = op[1]
    else:
        raise Invalid()
    return name


def invariants(s: State, v: Verdict, trace, where):
    from cisco_acl import Ace, Acl

    acl = s.acl
    text = acl.line
    detail = {"trace": trace, "text": text}
    if acl.platform != s.platform:
        v.fail(f"{where}:platform-attribute", detail)
        return
    try:
        hdr, got = G.read_flat(text, s.platform, s.version, strict=True)
    except R.RefError as ex:
        v.fail(f"{where}:text-not-valid-platform-syntax", dict(detail, why=str(ex)[:200]))
        return
    want = G.flat_meaning({"items": s.flat})
    if hdr.name != s.name:
        v.fail(f"{where}:acl-name-changed", detail)
    if got != want:
        if len(got) != len(want):
            kind = "entry-count"
        else:
            i = next(k for k in range(len(got)) if got[k] != want[k])
            kind = "sequence-number" if got[i][0] == want[i][0] and got[i][2] == want[i][2] else (
                "remark" if want[i][0] == "r" else "entry-meaning")
        v.fail(f"{where}:model-mismatch:{kind}", dict(detail, model=[G.item_line(it, s.platform, noise=False) for it in s.flat]))
        return
    lines = text.split("\n")[1:]
    if any(not ln.startswith(s.indent) or ln[len(s.indent):len(s.indent) + 1] in (" ", "\t") for ln in lines):
        v.fail(f"{where}:indent-not-applied", detail)
    again = Acl(text, **s.kwargs()).line
    if again != text:
        v.fail(f"{where}:text-does-not-reparse-to-itself", dict(detail, again=again))
    rebuilt = Acl(**acl.data()).line
    if rebuilt != text:
        v.fail(f"{where}:data-rebuilds-other-text", dict(detail, rebuilt=rebuilt))
    want_tcam = 1
    for it in s.flat:
        if it["t"] == "ace":
            n = 1
            for side in ("src", "dst"):
                if it["rec"][side]["k"] == "group":
                    n *= len(it["rec"][side].get("m") or []) or 1
            want_tcam += n
    if acl.tcam_count() != want_tcam:
        v.fail(f"{where}:tcam_count", dict(detail, got=acl.tcam_count(), want=want_tcam))
    if acl.group_by != s.group_by:
        v.fail(f"{where}:group_by-attribute", dict(detail, got=acl.group_by, want=s.group_by))
    # attached members
    aces = [o for o in A.flat_items(acl.items) if isinstance(o, Ace)]
    recs = [it["rec"] for it in s.flat if it["t"] == "ace"]
    for o, rec in zip(aces, recs):
        for addr, side in ((o.srcaddr, "src"), (o.dstaddr, "dst")):
            if rec[side]["k"] == "group":
                try:
                    gm = [R._read_addr(x.line.split(), 0, s.platform, True)[0].pair for x in addr.items]  # pylint: disable=protected-access
                except R.RefError as ex:
                    v.fail(f"{where}:member-not-valid-platform-syntax", dict(detail, members=[x.line for x in addr.items],
                                                                             why=str(ex)[:120]))
                    return
                if gm != list(G.addr_members(rec[side])):
                    v.fail(f"{where}:group-members-differ", dict(detail, ace=o.line, members=[x.line for x in addr.items]))
                    return


def run_history(acl_case, ops) -> Verdict:
    G.validate_acl(acl_case)
    for it in acl_case["items"]:
        if it["t"] == "ace":
            rec = it["rec"]
            if not all(G.addr_is_native(rec[s], acl_case["platform"]) for s in ("src", "dst")):
                raise Invalid()
            if any(f not in R.TCP_FLAGS for f in rec.get("flags") or []) or rec.get("opq"):
                raise Invalid()
            rr = G.rec_rule(rec)
            if any(p is not None and not p.ivs for p in (rr.sport, rr.dport)):
                raise Invalid()
            if any(rec.get(s) and rec[s]["op"] == "neq" and len(rec[s]["v"]) > 1 for s in ("sp", "dp")):
                raise Invalid()
    heads = [it["text"] for it in acl_case["items"] if it["t"] == "rem" and it["text"].startswith(acl_case.get("prefix") or "= ")]
    if len(set(heads)) != len(heads):
        raise Invalid()
    v = Verdict()
    s = State(acl_case)
    if len(list(A.flat_items(s.acl.items))) != len(s.flat):
        raise Invalid()
    trace = []
    invariants(s, v, trace, "init")
    applied = []
    for op in ops:
        if v.fails:
            break
        name = apply(op, s, v)
        trace.append(op if len(str(op)) < 200 else [op[0], "..."])
        if name is None:
            trace[-1] = ["skipped", op[0]]
            continue
        applied.append(name)
        if not v.fails:
            invariants(s, v, list(trace), f"after-{name}")
    v.nt(len(applied) >= 3 and len(set(applied)) >= 2 and bool(set(applied) & STRUCTURAL))
    v.label(f"applied={min(len(applied), 12)}", *sorted(set(applied)))
    return v


def judge(case) -> Verdict:
    return run_history(case["acl"], case["ops"])


# --------------------------------------------------------------------------------------- random histories
def item_st(platform):
    rem = G.remark_text_st().map(lambda t: {"t": "rem", "text": "r " + t, "seq": 0})
    ace = G.ace_st(platform, kmax=2, groups=False, seq=False, noise=False, established=False, neq_multi=False).map(
        lambda r: {"t": "ace", "rec": r})
    return st.one_of(ace, ace, ace, rem)


@st.composite
def op_st(draw, platform):
    name = draw(st.sampled_from(["platform", "platform", "port_nr", "protocol_nr", "resequence", "group", "ungroup",
                                 "shuffle_sort", "reverse", "insert", "append", "pop", "remove", "copy", "export_import",
                                 "reparse", "delete_shadow", "delete_shadow", "ungroup_ports", "indent", "fill_in_place",
                                 "twin", "sort_twice", "append_remove"]))
    if name == "append_remove":
        return [name, draw(st.integers(0, 12))]
    if name == "twin":
        return [name, draw(st.integers(0, 12)), draw(st.sampled_from([80, 443, 22, 9, 10, 99, 100, 1812, 123, 8080, 65535, 1]))]
    if name == "platform":
        return [name, draw(st.sampled_from(["ios", "nxos", "ios", "nxos", "cisco_ios", "cisco_nxos", "cnx"]))]
    if name in ("port_nr", "protocol_nr"):
        return [name, draw(st.booleans())]
    if name == "resequence":
        return [name, draw(st.sampled_from([0, 1, 10, 100])), draw(st.sampled_from([1, 5, 10]))]
    if name == "shuffle_sort":
        return [name, draw(st.lists(st.integers(0, 30), min_size=1, max_size=6)), draw(st.sampled_from([1, 10])),
                draw(st.sampled_from([1, 10]))]
    if name == "insert":
        return [name, draw(st.integers(0, 12)), draw(item_st(platform))]
    if name == "append":
        return [name, draw(item_st(platform))]
    if name in ("pop", "remove", "delete_shadow"):
        return [name, draw(st.integers(0, 12))]
    if name == "indent":
        return [name, draw(st.sampled_from([" ", "  ", "   ", "\t"]))]
    return [name]


@st.composite
def history_st(draw, tier):
    acl = draw(G.acl_st(min_items=1, max_items=8, kmax=2, groups=True, members=True, seqs=True, neq_multi=False,
                        empty_sets=False, established=False, native=True, dup_headings=False))
    acl["port_nr"] = draw(st.booleans())
    acl["version"] = draw(st.sampled_from(["0", "0", "0", "15.2(02)SY", "16.09.06"]))
    if draw(st.sampled_from(range(8))) == 0:
        aces = [it for it in acl["items"] if it["t"] == "ace"]
        if aces:
            acl["max_ncwb"] = 30
            draw(st.sampled_from(aces))["rec"]["src"] = {"k": "wild", "b": 0x08000001, "w": 0x03FFFE00 | (draw(st.integers(0, 255)) << 1 & ~1)}
    ops = draw(st.lists(op_st(acl["platform"]), min_size=4, max_size=25 if tier == "quick" else 40))
    if draw(st.sampled_from(range(6))) == 4 and not acl["group_by"]:
        # copies of one entry that differ in the destination port only (a name against a number, numbers of
        # different length), then sort() twice
        tcp = [i for i, it in enumerate(acl["items"]) if it["t"] == "ace" and it["rec"]["proto"] in (6, 17)]
        if tcp:
            i = draw(st.sampled_from(tcp))
            tail = [["twin", i, draw(st.sampled_from([80, 443, 22, 9, 100, 1812, 123, 8080]))] for _ in range(draw(st.integers(1, 2)))]
            ops = ops[: draw(st.integers(0, 3))] + tail + [["sort_twice"]] + ops[3:]
    if draw(st.sampled_from(range(5))) == 2:
        # several independent (covering entry, covered entry) pairs in one ACL, interleaved in every way, and
        # shadow removal early in the history
        platform = acl["platform"]
        pairs, fill = [], []
        for i in range(draw(st.integers(2, 3))):
            top = draw(G.ace_st(platform, kmax=0, groups=False, seq=False, noise=False, established=False, neq_multi=False,
                                protos=st.sampled_from([0, 6, 17])))
            top["src"] = G.native_addr((G.POOL_BASE | (i + 1) << 16, 0xFFFF), platform)
            top["flags"] = []
            low = dict(top, src=G.native_addr((G.POOL_BASE | (i + 1) << 16 | draw(st.integers(0, 255)) << 8,
                                               draw(st.sampled_from([0, 0xFF]))), platform))
            if top["proto"] in (6, 17) and draw(st.booleans()):
                low["dp"] = top.get("dp") or {"op": "eq", "v": [draw(st.sampled_from([22, 80, 443]))], "nm": [-1]}
            pairs.append((top, low))
        for _ in range(draw(st.integers(0, 2))):
            other = draw(G.ace_st(platform, kmax=0, groups=False, seq=False, noise=False, established=False, neq_multi=False))
            other["src"] = G.native_addr((G.POOL_BASE | 9 << 16 | draw(st.integers(0, 255)) << 8, 0xFF), platform)
            fill.append(other)
        layout = draw(st.sampled_from(["k1 s1 k2 s2", "k1 k2 s1 s2", "k1 s1 s1 k2 s2", "k1 k2 s2 s1", "k1 s1 f k2 s2", "f k1 s1 k2 f s2"]))
        recs = []
        if len(pairs) == 3:
            layout += " k3 s3" if draw(st.booleans()) else " k3 f s3"
        for tok in layout.split():
            if tok == "f":
                if fill:
                    recs.append(dict(fill[len(recs) % len(fill)]))
            else:
                top, low = pairs[int(tok[1]) - 1]
                recs.append(dict(top if tok[0] == "k" else low))
        acl["items"] = [{"t": "ace", "rec": G.to_native(r, platform)} for r in recs]
        acl["group_by"] = ""
        acl.pop("max_ncwb", None)
        ops.insert(draw(st.integers(0, 2)), ["delete_shadow", draw(st.integers(0, 4))])
    return {"acl": acl, "ops": ops}


# --------------------------------------------------------------------------------------- bounded exhaustive
def _rec(action="permit", proto=6, src=None, dst=None, sp=None, dp=None, seq=0, flags=None):
    any_ = {"k": "any", "b": 0, "w": R.ALL1}
    return {"seq": seq, "action": action, "proto": proto, "pn": 0, "src": src or any_, "dst": dst or any_, "sp": sp,
            "dp": dp, "flags": flags or [], "logs": [], "opq": [], "ws": None}


def _eq(*vals):
    return {"op": "eq", "v": list(vals), "nm": [0] * len(vals)}


def seed_acls():
    net = {"k": "wild", "b": R.ip2int("10.0.0.0"), "w": 255}
    host = {"k": "host", "b": R.ip2int("10.0.0.5"), "w": 0}
    ncw = {"k": "wild", "b": R.ip2int("10.0.0.0"), "w": 0x0000FF03 & ~0x00000100 | 0x200}
    grp = {"k": "group", "b": 0, "w": 0, "n": "G1", "m": [[R.ip2int("10.0.0.0"), 255], [R.ip2int("10.0.2.0"), 0]]}
    pfx = {"k": "prefix", "b": R.ip2int("10.0.0.0"), "w": 255}
    hd = lambda n: {"t": "rem", "text": f"= H{n}", "seq": 0}  # noqa: E731
    ace = lambda **kw: {"t": "ace", "rec": _rec(**kw)}  # noqa: E731
    base = {"name": "T", "type": "extended", "prefix": "= ", "group_by": "", "indent": "  "}
    return [
        dict(base, platform="ios", items=[hd(1), ace(src=net, dp=_eq(80, 443)), ace(src=host, dp=_eq(80)),
                                          hd(2), ace(action="deny", proto=0)]),
        dict(base, platform="ios", items=[ace(proto=0, src=grp), ace(proto=17, src=host, sp=_eq(53), seq=0),
                                          {"t": "rem", "text": "note x", "seq": 0}, ace(proto=0, src=host)]),
        dict(base, platform="nxos", items=[hd(1), ace(src=pfx, dp=_eq(22)), ace(src=host, dp={"op": "range", "v": [20, 30], "nm": [-1, -1]}),
                                           ace(src=host, dp=_eq(22))]),
        dict(base, platform="ios", group_by="= ", items=[hd(1), ace(proto=1, src=ncw), hd(2), ace(proto=1, src=host),
                                                           ace(proto=1, src=ncw)]),
        dict(base, platform="nxos", items=[ace(seq=10, proto=6, flags=["syn"]), ace(seq=20, proto=6, flags=["syn", "ack"]),
                                           ace(seq=30, proto=6, flags=["syn"], dp=_eq(80))]),
        dict(base, platform="ios", items=[ace(dp=_eq(1, 2), sp=_eq(3, 4)), ace(dp=_eq(2), sp=_eq(3)), hd(1),
                                          ace(action="deny", dp={"op": "gt", "v": [1023], "nm": [-1]})]),
    ]


ALPHABET = [
    ["platform", "ios"], ["platform", "nxos"], ["port_nr", True], ["port_nr", False], ["protocol_nr", True],
    ["resequence", 10, 10], ["resequence", 0, 1], ["group"], ["ungroup"], ["shuffle_sort", [1, 0, 2], 5, 5], ["reverse"],
    ["insert", 1, {"t": "ace", "rec": _rec(proto=17, dp=_eq(53))}], ["append", {"t": "rem", "text": "tail", "seq": 0}],
    ["pop", 1], ["copy"], ["export_import"], ["reparse"], ["delete_shadow", 0], ["ungroup_ports"], ["indent", " "],
    ["platform", "cnx"], ["fill_in_place"],
]


def judge_enum(case) -> Verdict:
    acl = seed_acls()[case["seed"]]
    ops = [ALPHABET[i] for i in case["ops"]]
    v = run_history(acl, ops)
    v.key = case
    return v


def enum_sequences(tier, shard, nshards):
    depth = 3 if tier == "thorough" else 2
    idx = 0
    for seed in range(len(seed_acls())):
        for ln in range(1, depth + 1):
            for seq in itertools.product(range(len(ALPHABET)), repeat=ln):
                if idx % nshards == shard:
                    yield {"seed": seed, "ops": list(seq)}
                idx += 1


SUBS = [
    Sub("histories", judge, strategy=history_st, quick=1200, thorough=12000, shards_thorough=64),
    Sub("all-short-sequences", judge_enum, enum=enum_sequences, quick=1, thorough=1, shards_quick=16, shards_thorough=64,
        exhaustive=True, exhaustive_quick=True),
]


def evidence_extra(total):
    return {"exhaustive": False,
            "exhaustive_subdomains": "all-short-sequences: every sequence of length <= 2 (quick) / <= 3 (thorough) over the "
                                     "22-operation alphabet from each of the 6 seed ACLs; random histories beyond"}


MANIFEST = {
    "technique": "model-based (stateful) property testing: generated op-list histories interpreted against the library and a history-free reference model with invariants after every step; bounded-exhaustive enumeration of all short sequences over a fixed alphabet",
    "text": "exploration: after every step of hundreds (quick) / 12 000 (thorough) generated histories of up to 25 / 40 operations, and of every operation sequence of length <= 2 / <= 3 over 22 concrete operations from 6 seed ACLs, the rendered text re-parsed to itself and the independent strict reader saw exactly the rule list predicted by the model",
    "note": "trusted: lib/refsem.py and the per-operation model in checks/c17.py (documentation-derived); ACLs <= 8 lines, k<=2, list operations only on ungrouped ACLs; the model covers 18 operations, not every public attribute",
}
