"""C13 Address containment answers equal true set containment."""
from __future__ import annotations

from hypothesis import strategies as st

from lib import acehelp as A
from lib import gen as G
from lib import refsem as R
from lib.harness import Invalid, Sub, Verdict

PROPERTY = "C13"
LEVEL = "exploration"
RULE = ("cases: pairs of addresses, the second derived from the first (inside / wider / one bit off / fresh), in "
        "every spelling and with the platform chosen independently per side: Address x Address (hosts, prefixes, "
        "contiguous and non-contiguous wildcards k<=4, grouped addresses with 1..4 members), AddressAg x "
        "AddressAg in native member syntax, member-in-group with 1..5 members. Oracle: bit algebra inclusion "
        "(exact) - equality for plain addresses, implication for grouped ones. Non-trivial: oracle True, or "
        "False while the two sets intersect; distinct by canonical pair")
RULE += ". Directed classes added after the seeded-change rounds: 9..12 non-contiguous bits at arbitrary positions; subnet-mask-shaped wildcards; a group below one non-contiguous wildcard; edits the library refuses inside re-address histories; numbered members and questions; a kept object re-addressed after a platform round trip of its group"
ASSUMPTIONS = ["refsem inclusion algebra; AddrGroup in AddrGroup and 'in' on a non-contiguous member (documented "
               "TypeError) are outside the statement's observables and not asserted"]


def slash_spelling(a: dict, how):
    """'A.B.C.D/M.M.M.M' - the network written with a slash and a dotted subnet mask or host mask, with or without
    address bits below the mask (accepted by the library like A.B.C.D/LEN). None if the address has no such form."""
    if not how or a["k"] not in ("prefix", "wild") or not R.is_contiguous(a["w"]) or a["w"] in (0, R.ALL1):
        return None
    kind, hostbits = how
    base = (a["b"] & ~a["w"] & R.ALL1) | (hostbits & a["w"])
    mask = a["w"] if kind == "hostmask" else (~a["w"] & R.ALL1)
    return f"{R.int2ip(base)}/{R.int2ip(mask)}"


def _mk_address(a: dict, platform: str, slash=None):
    from cisco_acl import Address

    ad = Address(slash_spelling(a, slash) or G.render_addr(a, platform), platform=platform)
    if a["k"] == "group":
        ad.items = A.member_lines(a)
    return ad


def _pairs(a: dict):
    return G.addr_members(a) if a["k"] == "group" else (G.addr_pair(a),)


def _intersect(p, q) -> bool:
    # two (base, wild) sets intersect iff they agree on all bits that are fixed in both
    return ((p[0] ^ q[0]) & ~p[1] & ~q[1] & R.ALL1) == 0


def judge_addr(case) -> Verdict:
    from cisco_acl import functions

    a, b, pa, pb = case["a"], case["b"], case["pa"], case["pb"]
    if pa not in ("ios", "nxos") or pb not in ("ios", "nxos"):
        raise Invalid()
    G.validate_addr(a)
    G.validate_addr(b)
    sl = case.get("slash") or [None, None]
    for x in sl:
        if x is not None and not (isinstance(x, list) and len(x) == 2 and x[0] in ("netmask", "hostmask") and isinstance(x[1], int)):
            raise Invalid()
    top, bot = _mk_address(a, pa, sl[0]), _mk_address(b, pb, sl[1])
    want = R.pairs_subset(_pairs(b), _pairs(a))
    grouped = a["k"] == "group" or b["k"] == "group"
    v = Verdict()
    if any(slash_spelling(x, y) for x, y in ((a, sl[0]), (b, sl[1]))):
        v.label("slash-and-dotted-mask-spelling")
    got1 = bot.subnet_of(top)
    got2 = functions.subnet_of(top=top, bottom=bot)
    for name, got in (("Address.subnet_of", got1), ("functions.subnet_of", got2)):
        if grouped:
            empty_bottom = not _pairs(b)
            if got and not want and not empty_bottom:
                v.fail(f"addr:{name}:true-without-containment:grouped", {"top": top.line, "bottom": bot.line,
                       "top_members": A.member_lines(a) if a["k"] == "group" else None,
                       "bottom_members": A.member_lines(b) if b["k"] == "group" else None})
        elif bool(got) != want:
            v.fail(f"addr:{name}:{'missed' if want else 'false'}-containment", {"top": top.line, "bottom": bot.line,
                   "platforms": [pa, pb], "library": got, "oracle": want})
    inter = any(_intersect(p, q) for p in _pairs(a) for q in _pairs(b))
    v.nt(want or inter)
    v.label("oracle-true" if want else ("overlap-false" if inter else "disjoint"), "grouped" if grouped else "plain",
            f"{G.label_addr(a)}>{G.label_addr(b)}")
    return v


@st.composite
def group_under_net(draw):
    """top = one contiguous network; bottom = a group of 3..6 members, each inside the top with high
    probability (so that a single outsider at ANY position decides the answer)."""
    plen = draw(st.integers(8, 28))
    w = (1 << (32 - plen)) - 1
    base = draw(G.base_st()) & ~w & R.ALL1
    top = {"k": "wild" if draw(st.booleans()) else "prefix", "b": base, "w": w}
    mem = []
    for _ in range(draw(st.integers(3, 6))):
        mlen = draw(st.integers(plen, 32))
        mw = (1 << (32 - mlen)) - 1
        inside = draw(st.sampled_from([True, True, True, True, False]))
        mb = (base | (draw(st.integers(0, R.ALL1)) & w)) if inside else (base ^ (1 << draw(st.integers(32 - plen, 31))))
        mem.append([mb & ~mw & R.ALL1, mw])
    if draw(st.sampled_from(range(5))) in (1, 3) and plen > 9:
        # one more member that CONTAINS members listed before (or after) it and reaches beyond the top
        up = draw(st.integers(1, 4))
        w2 = (1 << (32 - plen + up)) - 1
        mem.insert(draw(st.sampled_from([0, len(mem)])), [base & ~w2 & R.ALL1, w2])
    return top, {"k": "group", "b": 0, "w": 0, "n": "G1", "m": mem}


@st.composite
def group_under_wild(draw):
    """top = ONE non-contiguous wildcard (every other subnet, odd hosts ...); bottom = a group of 3..5 ascending
    members, each inside the top with high probability - the first and the last included - so that an outsider
    in the middle decides."""
    low = draw(st.integers(0, 8))
    k = draw(st.integers(1, 3))
    pos = draw(st.lists(st.integers(low + 1, low + 6), min_size=k, max_size=k, unique=True))
    w = (1 << low) - 1
    for p_ in pos:
        w |= 1 << p_
    base = draw(G.base_st()) & ~w & ~((1 << (low + 7)) - 1) & R.ALL1
    top = {"k": "wild", "b": base, "w": w}
    span = 1 << 7
    wbits = (w >> low) & (span - 1)
    inside_idx = [i for i in range(span) if i & ~wbits == 0]
    outside_idx = [i for i in range(span) if i & ~wbits]
    n = draw(st.integers(2, 4))
    picks = sorted(draw(st.lists(st.sampled_from(inside_idx), min_size=min(n, len(inside_idx)), max_size=min(n, len(inside_idx)),
                                 unique=True)))
    where = draw(st.sampled_from(["none", "none", "between", "between", "below", "above"]))
    cands = {"between": [i for i in outside_idx if picks[0] < i < picks[-1]], "below": [i for i in outside_idx if i < picks[0]],
             "above": [i for i in outside_idx if i > picks[-1]]}.get(where) or []
    if cands:
        picks = sorted(picks + [draw(st.sampled_from(cands))])
    mem = [[(base | (i << low)) & R.ALL1, (1 << low) - 1] for i in picks]
    return top, {"k": "group", "b": 0, "w": 0, "n": "G1", "m": mem}


@st.composite
def adjacent_run_group(draw):
    """top = a group listing 2..4 CONSECUTIVE equal-size networks (an odd start index gives neighbours that are
    not siblings); bottom = the block just below / above the run, a block inside it, or their common supernet."""
    plen = draw(st.integers(16, 30))
    size = 1 << (32 - plen)
    start = draw(st.integers(1, 200))
    n = draw(st.integers(2, 4))
    base0 = (G.POOL_BASE & ~(size * 256 - 1) & R.ALL1) + start * size
    mem = [[(base0 + i * size) & R.ALL1, size - 1] for i in range(n)]
    where = draw(st.sampled_from(["below", "above", "inside", "super", "below-half"]))
    if where == "below":
        b = [(base0 - size) & R.ALL1, size - 1]
    elif where == "above":
        b = [(base0 + n * size) & R.ALL1, size - 1]
    elif where == "inside":
        b = [(base0 + draw(st.integers(0, n - 1)) * size) & R.ALL1, size - 1]
    elif where == "super":
        w2 = 2 * size - 1
        b = [base0 & ~w2 & R.ALL1, w2]
    else:
        b = [(base0 - size // 2) & R.ALL1 if size > 1 else (base0 - 1) & R.ALL1, max(size // 2 - 1, 0)]
    top = {"k": "group", "b": 0, "w": 0, "n": "G1", "m": mem}
    bottom = {"k": "wild" if draw(st.booleans()) else "prefix", "b": b[0], "w": b[1]}
    return top, bottom


@st.composite
def many_bits_pair(draw):
    """top = a wildcard with 9..12 non-contiguous bits at arbitrary positions; bottom = a host or a small wildcard
    that fixes each of those bits to 0 or 1 (any of them, the lowest and the highest included) and now and then
    differs in one bit the top does not leave open."""
    k = draw(st.integers(9, 12))
    low = draw(st.integers(0, 3))
    pos = draw(st.lists(st.integers(low + 1, 23), min_size=k, max_size=k, unique=True))
    w = (1 << low) - 1
    for p_ in pos:
        w |= 1 << p_
    base = draw(G.base_st()) & ~w & R.ALL1
    keep = draw(st.lists(st.sampled_from(pos), max_size=3, unique=True))
    bw = 0
    for p_ in keep:
        bw |= 1 << p_
    if draw(st.booleans()):
        bw |= (1 << low) - 1
    bb = base | (draw(st.integers(0, R.ALL1)) & w & ~bw)
    if draw(st.sampled_from(range(4))) == 0:
        bb ^= 1 << draw(st.sampled_from([x for x in range(32) if not w >> x & 1]))
    bb &= ~bw & R.ALL1
    top = {"k": "wild", "b": base, "w": w}
    bottom = {"k": "host", "b": bb, "w": 0} if bw == 0 else {"k": "wild", "b": bb, "w": bw}
    return top, bottom


@st.composite
def typo_mask_pair(draw):
    """top = a wildcard whose mask is the highest k bits (a subnet mask typed where a wildcard belongs: 224.0.0.0
    240.0.0.0), with all lower address bits zero or not; bottom = an address of the usual pool, which such a top
    contains only if the lower 32-k bits agree."""
    k = draw(st.integers(1, 7))
    w = ((1 << k) - 1) << (32 - k)
    low = draw(st.sampled_from([0, 0, 0, 1, 0x000A0000]))
    base = (draw(st.integers(0, R.ALL1)) & w) | low
    top = {"k": "wild", "b": base & ~w & R.ALL1, "w": w}
    bb = draw(st.one_of(G.base_st(), st.sampled_from([low, low | (1 << 31), 0x0A000000, 0x0A000000 | low])))
    plen = draw(st.sampled_from([32, 32, 24, 8, 4]))
    bw = (1 << (32 - plen)) - 1
    bottom = {"k": "host", "b": bb, "w": 0} if bw == 0 else {"k": "prefix", "b": bb & ~bw & R.ALL1, "w": bw}
    return top, bottom


@st.composite
def addr_pair_st(draw, tier):
    case = draw(_addr_pair_st(tier))
    if draw(st.sampled_from(range(5))) == 4:
        case["slash"] = [draw(st.sampled_from([None, ["netmask", 0], ["hostmask", 0], ["netmask", draw(st.integers(1, R.ALL1))],
                                               ["hostmask", draw(st.integers(1, R.ALL1))]])) for _ in range(2)]
    return case


@st.composite
def _addr_pair_st(draw, tier):
    mode = draw(st.sampled_from(range(10)))
    if mode == 5 and draw(st.booleans()):
        a, b = draw(group_under_wild())
        return {"a": a, "b": b, "pa": draw(st.sampled_from(["ios", "nxos"])), "pb": draw(st.sampled_from(["ios", "nxos"]))}
    if mode < 2:
        a, b = draw(group_under_net())
        return {"a": a, "b": b, "pa": draw(st.sampled_from(["ios", "nxos"])), "pb": draw(st.sampled_from(["ios", "nxos"]))}
    if mode == 2:
        a, b = draw(adjacent_run_group())
        return {"a": a, "b": b, "pa": draw(st.sampled_from(["ios", "nxos"])), "pb": draw(st.sampled_from(["ios", "nxos"]))}
    if mode == 4 and draw(st.booleans()):
        a, b = draw(typo_mask_pair())
        return {"a": a, "b": b, "pa": draw(st.sampled_from(["ios", "nxos"])), "pb": draw(st.sampled_from(["ios", "nxos"]))}
    if mode == 3:
        a, b = draw(many_bits_pair())
        return {"a": a, "b": b, "pa": draw(st.sampled_from(["ios", "nxos"])), "pb": draw(st.sampled_from(["ios", "nxos"]))}
    # 2^9 x 2^9 prefixes once in a while: the library's cover test may switch strategy with size
    kmax = draw(st.sampled_from([4] * 24 + [7] * 5 + [9]))  # 2^7 x 2^7 prefixes: large expansions, still cheap
    a = draw(G.addr_st(kmax=kmax, groups=True))
    b = draw(G.mutate_addr(a, kmax=kmax, groups=True))
    if draw(st.integers(0, 2)) == 0:
        a, b = b, a
    return {"a": a, "b": b, "pa": draw(st.sampled_from(["ios", "nxos"])), "pb": draw(st.sampled_from(["ios", "nxos"]))}


# --------------------------------------------------------------------------------------- members
def member_text(pair, platform: str, style: int, seq: int = 0) -> str:
    b, w = pair
    if w == R.ALL1 and platform == "nxos" and style % 3 == 0:
        text = "any"  # NX-OS spelling of 0.0.0.0/0 inside an address group
    elif w == 0:
        text = f"host {R.int2ip(b)}" if style % 2 == 0 or platform == "ios" else f"{R.int2ip(b)}/32"
    elif platform == "ios":
        text = f"{R.int2ip(b)} {R.int2ip(~w & R.ALL1)}"
    elif style % 2 == 0 and R.is_contiguous(w):
        text = f"{R.int2ip(b)}/{32 - bin(w).count('1')}"
    else:
        text = f"{R.int2ip(b)} {R.int2ip(w)}"
    if seq and platform == "nxos":
        text = f"{seq} {text}"
    return text


def _valid_member(pair, platform):
    b, w = pair
    if not R.is_contiguous(w) or (b & w):
        raise Invalid()
    if platform == "ios" and w == R.ALL1:
        raise Invalid()


def judge_member(case) -> Verdict:
    from cisco_acl import AddressAg

    pa, pb = case["pa"], case["pb"]
    a, b = tuple(case["a"]), tuple(case["b"])
    _valid_member(a, pa)
    _valid_member(b, pb)
    top = AddressAg(member_text(a, pa, case.get("sa", 0), case.get("qa", 0)), platform=pa)
    bot = AddressAg(member_text(b, pb, case.get("sb", 0), case.get("qb", 0)), platform=pb)
    want = R.pair_contains(a, b)
    v = Verdict()
    got = {"subnet_of": bot.subnet_of(top), "in": bot in top}
    for name, ans in got.items():
        if bool(ans) != want:
            v.fail(f"member:{name}:{'missed' if want else 'false'}-containment",
                   {"top": top.line, "bottom": bot.line, "platforms": [pa, pb], "library": ans, "oracle": want})
    v.nt(want or _intersect(a, b))
    v.label("oracle-true" if want else "oracle-false")
    return v


@st.composite
def contiguous_pair(draw, platform):
    plen = draw(st.one_of(st.integers(22, 32), st.integers(1, 32)))
    w = (1 << (32 - plen)) - 1
    return [draw(G.base_st()) & ~w & R.ALL1, w]


@st.composite
def derived_contiguous(draw, a):
    b, w = a
    plen = 32 - bin(w).count("1")
    how = draw(st.sampled_from(["same", "inside", "inside", "wider", "flip", "fresh"]))
    if how == "fresh":
        return draw(contiguous_pair("nxos"))
    if how == "inside" and plen < 32:
        nl = draw(st.integers(plen + 1, min(32, plen + 6)))
        nw = (1 << (32 - nl)) - 1
        nb = b | (draw(st.integers(0, ALL1_)) & w)
        return [nb & ~nw & R.ALL1, nw]
    if how == "wider" and plen > 1:
        nl = draw(st.integers(max(1, plen - 4), plen - 1))
        nw = (1 << (32 - nl)) - 1
        return [b & ~nw & R.ALL1, nw]
    if how == "flip" and plen > 0:
        bit = draw(st.integers(32 - plen, 31))
        return [(b ^ (1 << bit)) & ~w & R.ALL1, w]
    return [b, w]


ALL1_ = R.ALL1


@st.composite
def member_pair_st(draw, tier):
    a = draw(contiguous_pair("nxos"))
    b = draw(derived_contiguous(a))
    if draw(st.integers(0, 5)) == 0:
        a, b = b, a
    return {"a": a, "b": b, "pa": draw(st.sampled_from(["ios", "nxos"])), "pb": draw(st.sampled_from(["ios", "nxos"])),
            "sa": draw(st.integers(0, 1)), "sb": draw(st.integers(0, 1)),
            "qa": draw(st.sampled_from([0, 0, 10])), "qb": draw(st.sampled_from([0, 0, 20]))}


def judge_in_group(case) -> Verdict:
    from cisco_acl import AddrGroup, AddressAg

    platform = case["platform"]
    members = [tuple(m) for m in case["members"]]
    x = tuple(case["x"])
    if not members or platform not in ("ios", "nxos"):
        raise Invalid()
    for m in members + [x]:
        _valid_member(m, platform)
    head = ("object-group network " if platform == "ios" else "object-group ip address ") + "GRP"
    seqs = case.get("seqs") or [0]
    if any(not isinstance(q, int) or not 0 <= q <= 1000 for q in seqs + [case.get("xseq", 0)]):
        raise Invalid()
    body = [member_text(m, platform, i, seqs[i % len(seqs)]) for i, m in enumerate(members)]
    v = Verdict()
    if case.get("detach") is not None and all(m[1] != R.ALL1 for m in members + [x]):
        # the group is made from objects the caller keeps; the group is moved to the other platform and back; the
        # caller re-addresses one of the objects it kept and asks whether that one is in the group
        objs = [AddressAg(t, platform=platform) for t in body]
        grp = AddrGroup(name="GRP", items=list(objs), platform=platform)
        other = "ios" if platform == "nxos" else "nxos"
        grp.platform = other
        grp.platform = platform
        xo = objs[case["detach"] % len(objs)]
        # (the kept object may have been left on either platform by the round trip: it is re-addressed in the
        # syntax of the platform it reports, then brought to the group's platform)
        xo.line = member_text(x, xo.platform, case.get("sx", 0))
        if xo.platform != platform:
            xo.platform = platform
        now = [R.read_member(o.line, platform)[1] for o in grp.items]
        want = any(R.pair_contains(m, x) for m in now)
        v.label("kept-object-after-platform-round-trip")
    else:
        grp = AddrGroup(head + "\n" + "\n".join(" " + s for s in body), platform=platform)
        if len(grp.items) != len(members):
            v.fail("group:member-lost-on-construction", {"text": head + " / " + " / ".join(body), "items": [o.line for o in grp.items]})
            return v
        xo = AddressAg(member_text(x, platform, case.get("sx", 0), case.get("xseq", 0)), platform=platform)
        want = any(R.pair_contains(m, x) for m in members)
    if case.get("wide") and platform == "nxos" and case.get("detach") is None:
        # a member with 17 non-contiguous bits in a group read with a raised limit; the group is copied / re-platformed
        # (also to an alias of its own platform); the listed member is still listed
        wtext = "10.0.0.0 0.3.255.254"
        grp = AddrGroup(name="GRP", items=body + [wtext], platform=platform, max_ncwb=30)
        how = case["wide"]
        if how == "copy":
            grp = grp.copy()
        elif how in ("nxos", "cnx", "cisco_nxos"):
            grp.platform = how
        else:
            raise Invalid()
        if [o.line for o in grp.items][-1:] != [wtext]:
            v.fail("group:wide-member-lost-by-copy-or-platform", {"how": how, "members": [o.line for o in grp.items]})
            return v
        xo = AddressAg(wtext, platform=platform, max_ncwb=30)
        want = True
        v.label("17-bit-member-under-raised-limit")
    got = xo in grp
    if bool(got) != want:
        v.fail(f"group:{'missed' if want else 'false'}-membership", {"group": grp.line, "member": xo.line, "library": got,
                                                                    "oracle": want})
    v.nt(want or any(_intersect(m, x) for m in members))
    v.label("oracle-true" if want else "oracle-false", f"members={len(members)}")
    return v


@st.composite
def in_group_st(draw, tier):
    platform = draw(st.sampled_from(["ios", "nxos"]))
    members = [draw(contiguous_pair(platform)) for _ in range(draw(st.integers(1, 5)))]
    x = draw(derived_contiguous(draw(st.sampled_from(members))))
    if platform == "ios":
        members = [m for m in members if m[1] != R.ALL1] or [[R.ip2int("10.0.0.0"), 255]]
        if x[1] == R.ALL1:
            x = [x[0], 0]
    case = {"platform": platform, "members": members, "x": x, "sx": draw(st.integers(0, 1))}
    if platform == "nxos" and draw(st.booleans()):
        # numbered members; the asked member carries a number too (often one that is used inside the group)
        case["seqs"] = draw(st.sampled_from([[10, 20, 30, 40, 50], [10], [5, 5, 7], [0, 10]]))
        case["xseq"] = draw(st.sampled_from([0, 10, 20, 30, 5, 99]))
    if draw(st.sampled_from(range(5))) == 3:
        case["detach"] = draw(st.integers(0, 4))
    elif platform == "nxos" and draw(st.sampled_from(range(6))) == 4:
        case["wide"] = draw(st.sampled_from(["copy", "nxos", "cnx", "cisco_nxos"]))
    return case


def judge_readdress(case) -> Verdict:
    """Ask, re-address the bottom (line setter or in-place member edit), ask again: the second answer must
    describe the current addresses."""
    from cisco_acl import functions

    a, b, b2, platform = case["a"], case["b"], case["b2"], case["platform"]
    if platform not in ("ios", "nxos"):
        raise Invalid()
    for x in (a, b, b2):
        G.validate_addr(x)
    if (b["k"] == "group") != (b2["k"] == "group"):
        raise Invalid()
    top, bot = _mk_address(a, platform), _mk_address(b, platform)
    first = bot.subnet_of(top)
    _ = top.ipnets(), bot.ipnets()
    if b["k"] == "group":
        # edit the member list in place until it equals b2's
        want_lines = A.member_lines(b2)
        while len(bot.items) > len(want_lines):
            bot.items.pop()
        for i, ln in enumerate(want_lines):
            if i < len(bot.items):
                bot.items[i].line = ln
            else:
                bot.items.append(type(bot)(ln, platform=platform))
    else:
        bot.line = G.render_addr(b2, platform)
    want = R.pairs_subset(_pairs(b2), _pairs(a))
    grouped = a["k"] == "group" or b2["k"] == "group"
    v = Verdict()
    if case.get("refused") is not None:
        # an edit the library refuses (more non-contiguous bits than the limit) and the caller survives: whatever
        # the object shows afterwards is what the next answer has to describe
        pair = case["refused"]
        if not (isinstance(pair, list) and len(pair) == 2 and all(isinstance(x, int) and 0 <= x <= R.ALL1 for x in pair)):
            raise Invalid()
        if len(R.nc_bits(pair[1])) <= 16:
            raise Invalid()
        text = f"{R.int2ip(pair[0] & ~pair[1] & R.ALL1)} {R.int2ip(pair[1])}"
        target = bot.items[case.get("refused_at", 0) % len(bot.items)] if b["k"] == "group" and bot.items else bot
        if target is not bot or b["k"] != "group":
            try:
                target.line = text
                v.label("refused-edit-was-accepted")
            except ValueError:
                v.label("refused-edit")
            shown = []
            for o in (bot.items if b["k"] == "group" else [bot]):
                toks = o.line.split()
                ad, _ = R._read_addr(toks[1:] if toks[0].isdigit() else toks, 0, platform, False)
                shown.append(ad.pair)
            if all(len(R.nc_bits(pr[1])) <= 12 for pr in shown):
                want_shown = R.pairs_subset(shown, _pairs(a))
            elif all(any(R.pair_contains(t, pr) for t in _pairs(a)) for pr in shown):
                want_shown = True
            elif len(_pairs(a)) == 1:
                want_shown = False  # one top pair: containment is decided by bit algebra alone
            else:
                v.label("refused-edit-left-an-address-too-wide-to-expand")
                return v
            if want_shown != want:
                v.label("refused-edit-changed-the-text")
            want = want_shown
            if not grouped:
                for name, got in (("Address.subnet_of", bot.subnet_of(top)),
                                  ("functions.subnet_of", functions.subnet_of(top=top, bottom=bot))):
                    if bool(got) != want:
                        v.fail(f"readdress:{name}:answer-differs-from-shown-address-after-refused-edit",
                               {"top": top.line, "bottom_shown": bot.line, "refused": text, "library": got, "oracle": want})
                return v
            if bot.subnet_of(top) and not want and shown:
                v.fail("readdress:Address.subnet_of:true-without-containment:grouped:after-refused-edit",
                       {"top": top.line, "bottom_members": [x.line for x in bot.items], "refused": text})
            return v
    for name, got in (("Address.subnet_of", bot.subnet_of(top)), ("functions.subnet_of", functions.subnet_of(top=top, bottom=bot))):
        if grouped:
            if got and not want and _pairs(b2):
                v.fail(f"readdress:{name}:true-without-containment:grouped", {"top": top.line, "bottom": bot.line,
                       "bottom_members": [x.line for x in bot.items], "first_answer": first})
        elif bool(got) != want:
            v.fail(f"readdress:{name}:stale-or-wrong-answer", {"top": top.line, "bottom_before": G.render_addr(b, platform),
                   "bottom_now": bot.line, "library": got, "oracle": want, "first_answer": first})
    v.nt(bool(first) != want)
    v.label("answer-must-flip" if bool(first) != want else "answer-stays", "grouped" if grouped else "plain")
    return v


@st.composite
def readdress_st(draw, tier):
    a = draw(G.addr_st(kmax=3, groups=True))
    b = draw(G.mutate_addr(a, kmax=3, groups=True))
    if draw(st.booleans()):
        b2 = draw(G.mutate_addr(b, kmax=3, groups=True))
    else:
        b2 = draw(G.addr_st(kmax=3, groups=True))
    if (b["k"] == "group") != (b2["k"] == "group"):
        b2 = draw(G.addr_st(kmax=3, groups=True, kinds=["group"])) if b["k"] == "group" else \
            draw(G.addr_st(kmax=3, groups=False))
    case = {"a": a, "b": b, "b2": b2, "platform": draw(st.sampled_from(["ios", "nxos"]))}
    if draw(st.sampled_from(range(4))) == 0:
        # a netmask written where a wildcard belongs, or any other mask with 17+ non-contiguous bits
        mask = draw(st.sampled_from([0xFFFFFF00, 0xFFFFFE00, 0xFFFFFFFC, 0xFFFF8000, 0x00FFFFFE, 0x55555554, 0xFFFFFFF0]))
        case["refused"] = [draw(G.base_st()), mask]
        case["refused_at"] = draw(st.integers(0, 3))
    return case


SUBS = [
    Sub("readdress", judge_readdress, strategy=readdress_st, quick=2500, thorough=60000),
    Sub("address", judge_addr, strategy=addr_pair_st, quick=6000, thorough=200000, shards_thorough=48),
    Sub("member", judge_member, strategy=member_pair_st, quick=3000, thorough=80000),
    Sub("in-group", judge_in_group, strategy=in_group_st, quick=2000, thorough=50000),
]

# coverage-guided twins (fuzz/fuzz_hyp.py): atheris mutates the bytes Hypothesis decodes into cases of the same strategy
SUBS += [__import__("lib.harness", fromlist=["x"]).cov_sub('C13', s_) for s_ in list(SUBS) if s_.name in ('address',)]

MANIFEST = {
    "technique": "property-based differential testing: subnet_of / in answers compared with exact bit-algebra inclusion on derived address pairs in every spelling",
    "text": "exploration: equality with exact set inclusion on thousands (quick) / hundreds of thousands (thorough) of plain address pairs across spellings and platforms, implication for grouped addresses, exact membership for address-group members, and ask / re-address (line setter or in-place member edits, incl. an edit the library refuses) / ask histories",
    "note": "trusted: lib/refsem.py inclusion algebra; k<=4 non-contiguous bits; group members contiguous (native member syntax); AddrGroup-in-AddrGroup not asserted",
}
MANIFEST["engine"] = MANIFEST.get("engine", "hypothesis") + " + atheris (coverage-guided twins of the Hypothesis sub-checks, fuzz/fuzz_hyp.py: 2 jobs x 8 s quick, 8 jobs x 200 s thorough)"
MANIFEST["technique"] += "; plus coverage-guided fuzzing of the same strategies (atheris/libFuzzer mutates the byte stream Hypothesis decodes into cases, the same oracle runs inside the target, findings are re-judged outside it)"
