"""C14 Collapsing addresses preserves the covered address set exactly."""
from __future__ import annotations

from hypothesis import strategies as st

from lib import gen as G
from lib import refsem as R
from lib.harness import Invalid, Sub, Verdict
from checks.c13 import member_text

PROPERTY = "C14"
LEVEL = "exploration"
RULE = ("cases: lists of 1..12 contiguous addresses of one class (Address / AddressAg) and platform, drawn from a "
        "/22 pool with lengths 20..32 (siblings, nesting, duplicates, multi-level merges) plus wide random "
        "networks, in any order and spelling, notes set; plus refusal cases (a non-contiguous wildcard or a "
        "foreign object in the list). Oracle: merged integer intervals of output == merged intervals of input; "
        "len(out) <= len(in); ascending order; class and platform preserved; no notes; inputs not mutated; "
        "refusals raise TypeError. Non-trivial: output shorter than input or input has nested/adjacent "
        "networks; distinct by canonical list")
RULE += ". Directed classes added after the seeded-change rounds: runs of up to 130 consecutive equal-size networks; tilings of a block and its neighbour; ten shapes of non-contiguous wildcards for the refusal (which must have no single network); edited results and re-addressed inputs between two calls; iterables"
ASSUMPTIONS = ["minimality of the result is not asserted (the statement does not claim it)",
               "networks shorter than /1 are not generated (an IOS group member cannot express 0.0.0.0/0)"]


def _render(pair, cls, platform, style):
    b, w = pair
    if style >= 10 and w not in (0, R.ALL1):
        # slash and dotted mask: subnet mask (even styles) or host mask (odd styles)
        return f"{R.int2ip(b)}/{R.int2ip(w if style % 2 else ~w & R.ALL1)}"
    style = style % 10
    if cls == "AddressAg":
        return member_text((b, w), platform, style)
    if w == 0:
        return [f"host {R.int2ip(b)}", f"{R.int2ip(b)} 0.0.0.0", f"{R.int2ip(b)}/32"][style % 3]
    if style % 2 == 0 and platform == "nxos" or style % 5 == 4:
        return f"{R.int2ip(b)}/{32 - bin(w).count('1')}"
    return f"{R.int2ip(b)} {R.int2ip(w)}"


def judge(case) -> Verdict:
    from cisco_acl import Address, AddressAg
    from cisco_acl import address as address_mod
    from cisco_acl import address_ag as address_ag_mod

    cls_name, platform = case["cls"], case["platform"]
    if cls_name not in ("Address", "AddressAg") or platform not in ("ios", "nxos") or not case["nets"]:
        raise Invalid()
    cls = Address if cls_name == "Address" else AddressAg
    if case.get("subclass"):
        cls = type("Site" + cls_name, (cls,), {})  # a caller's own subclass: results are of the same kind
    fn = address_mod.collapse if cls_name == "Address" else address_ag_mod.collapse
    pairs = []
    for b, w in case["nets"]:
        if not R.is_contiguous(w) or b & w or w == R.ALL1 or not 0 <= b <= R.ALL1:
            raise Invalid()
        pairs.append((b, w))
    styles = case.get("styles") or [0]
    objs = [cls(_render(p, cls_name, platform, styles[i % len(styles)]), platform=platform, note=f"n{i}")
            for i, p in enumerate(pairs)]
    v = Verdict()
    bad = case.get("bad")
    if bad:
        if bad == "nc":
            if cls_name == "AddressAg" and platform == "ios":
                raise Invalid()
            shapes = ["10.0.0.0 0.0.1.3", "10.20.0.0 255.255.0.0", "10.0.0.0 255.0.0.0", "10.20.0.0 255.254.0.0",
                      "0.0.0.5 128.0.0.0", "10.0.0.0 0.0.255.254", "10.20.30.0 255.255.0.0", "0.0.0.0 255.255.0.0",
                      "10.0.0.1 0.0.0.254", "10.0.0.0 0.255.0.255"]
            extra = cls(shapes[case.get("shape", 0) % len(shapes)], platform=platform)
            if extra.ipnet is not None:
                v.fail("refusal:nc:non-contiguous-wildcard-has-a-single-network", {"line": extra.line, "ipnet": str(extra.ipnet)})
                return v
        elif bad == "foreign":
            extra = (AddressAg if cls_name == "Address" else Address)("host 10.0.0.1", platform=platform)
        else:
            extra = "10.0.0.0/24"
        lst = list(objs)
        if case.get("pos", 0) % 4 == 1:
            lst = lst[:case.get("shape", 0) % 2]  # the refused object alone, or with one neighbour: short lists have no shortcut
            v.label("refusal-in-a-list-of-%d" % (len(lst) + 1))
        lst.insert(case.get("pos", 0) % (len(lst) + 1), extra)
        v.label(f"refusal-{bad}")
        v.nt()
        try:
            out = fn(lst)
        except TypeError:
            return v
        except (ValueError, AttributeError) as ex:
            v.fail(f"refusal:{bad}:wrong-error-type", {"error": f"{type(ex).__name__}: {ex}"[:200]})
            return v
        v.fail(f"refusal:{bad}:approximated-instead-of-refused", {"input": [str(o) for o in lst], "output": [o.line for o in out]})
        return v

    if case.get("readdress"):
        # history: collapse once, re-address some inputs through their setters, collapse again - the second
        # result must describe the CURRENT addresses
        fn(list(objs))
        for idx, (b2, w2), via in case["readdress"]:
            if not R.is_contiguous(w2) or b2 & w2 or w2 == R.ALL1:
                raise Invalid()
            i = idx % len(objs)
            text = f"{R.int2ip(b2)}/{32 - bin(w2).count('1')}"
            if via == "prefix":
                objs[i].prefix = text
            else:
                objs[i].line = _render((b2, w2), cls_name, platform, styles[i % len(styles)])
            pairs[i] = (b2, w2)
        v.label("re-addressed-after-first-collapse")
    if case.get("spoil"):
        # history: collapse once, let the caller edit the RETURNED objects (they are the caller's), then collapse
        # fresh inputs again - earlier results must not leak into later ones
        for k, o in enumerate(fn(list(objs))):
            o.note = f"caller note {k}"
            if case["spoil"] == "line":
                o.line = "host 198.51.100.1" if cls_name == "Address" else "host 198.51.100.1"
        objs = [cls(_render(p, cls_name, platform, styles[i % len(styles)]), platform=platform, note=f"n{i}")
                for i, p in enumerate(pairs)]
        v.label("returned-objects-edited-before-second-collapse")
    before = [(o.line, o.note) for o in objs]
    container = case.get("container", "list")
    arg = {"list": list(objs), "tuple": tuple(objs), "iter": iter(list(objs)), "generator": (o for o in list(objs))}.get(container)
    if arg is None:
        raise Invalid()
    out = fn(arg)  # the parameter is documented as an Iterable
    text_in = [o.line for o in objs]
    detail = {"cls": cls_name, "platform": platform, "input": text_in, "output": [o.line for o in out]}
    want = R.iv_norm((b, b | w) for b, w in pairs)
    got_nets = []
    for o in out:
        if not isinstance(o, cls):
            v.fail("collapse:class-changed", detail)
            return v
        if o.platform != platform:
            v.fail("collapse:platform-changed", detail)
        if o.note not in ("", None):
            v.fail("collapse:note-kept", dict(detail, note=str(o.note)))
        if o.ipnet is None:
            v.fail("collapse:non-network-result", detail)
            return v
        got_nets.append((int(o.ipnet.network_address), int(o.ipnet.broadcast_address)))
    got = R.iv_norm(got_nets)
    if got != want:
        gained = not R.iv_subset(got, want)
        lost = not R.iv_subset(want, got)
        v.fail("collapse:set-" + ("gained" if gained else "") + ("lost" if lost else ""), detail)
    if len(out) > len(objs):
        v.fail("collapse:longer-than-input", detail)
    if got_nets != sorted(got_nets, key=lambda t: (t[0], -t[1])) and got_nets != sorted(got_nets):
        v.fail("collapse:not-ascending", detail)
    if list(out) != sorted(out):
        v.fail("collapse:not-sorted", detail)
    if [(o.line, o.note) for o in objs] != before:
        v.fail("collapse:input-mutated", dict(detail, before=before))
    nested = any(i != j and R.pair_contains(p, q) for i, p in enumerate(pairs) for j, q in enumerate(pairs))
    adjacent = len(want) < len(set(pairs))
    v.nt(len(out) < len(objs) or nested or adjacent)
    v.label("shorter" if len(out) < len(objs) else "same-length", cls_name,
            f"n={len(objs)}" if len(objs) <= 12 else ("n=13..32" if len(objs) <= 32 else "n>32"))
    return v


@st.composite
def case_st(draw, tier):
    cls = draw(st.sampled_from(["Address", "AddressAg"]))
    platform = draw(st.sampled_from(["ios", "nxos"]))
    n = draw(st.integers(1, 12))
    nets = []
    pool = R.ip2int("10.0.0.0")
    for _ in range(n):
        kind = draw(st.integers(0, 9))
        if kind < 7:
            plen = draw(st.integers(20, 32))
            w = (1 << (32 - plen)) - 1
            b = (pool | draw(st.integers(0, 1023))) & ~w & R.ALL1
        elif kind < 9 and nets:
            # sibling / parent / duplicate of an earlier one
            b0, w0 = draw(st.sampled_from(nets))
            how = draw(st.sampled_from(["sibling", "dup", "child", "parent"]))
            plen0 = 32 - bin(w0).count("1")
            if how == "sibling" and plen0 > 1:
                b, w = b0 ^ (w0 + 1), w0
            elif how == "child" and plen0 < 32:
                w = w0 >> 1
                b = b0 | (draw(st.integers(0, 1)) * (w + 1))
            elif how == "parent" and plen0 > 2:
                w = (w0 << 1) | 1
                b = b0 & ~w & R.ALL1
            else:
                b, w = b0, w0
        else:
            plen = draw(st.integers(2, 32))
            w = (1 << (32 - plen)) - 1
            b = draw(st.integers(0, R.ALL1)) & ~w & R.ALL1
        nets.append([b & R.ALL1, w])
    shape = draw(st.sampled_from(["mixed"] * 7 + ["run", "run", "tiles", "tiles", "tiles"]))
    if shape == "run":
        # a long run of consecutive equal-size networks (dozens of merges in a row), in any order
        plen = draw(st.sampled_from([32, 32, 31, 30, 28]))
        size = 1 << (32 - plen)
        count = draw(st.one_of(st.integers(2, 40), st.integers(33, 130)))
        first = draw(st.integers(0, 70))
        nets = [[(pool + (first + i) * size) & R.ALL1, size - 1] for i in range(count)]
        for _ in range(draw(st.integers(0, 3))):
            if len(nets) > 2:
                nets.pop(draw(st.integers(0, len(nets) - 1)))  # holes
        if len(nets) > 1:
            nets = list(draw(st.permutations(nets))) if draw(st.booleans()) else nets
    elif shape == "tiles":
        # a block X, pieces that tile X, pieces that tile the other half of X's supernet, X and that half themselves
        # present or not, in any order (a network and the merged supernet that starts at the same address ...)
        plen = draw(st.integers(24, 30))
        w = (1 << (32 - plen)) - 1
        x = (pool | (draw(st.integers(0, 63)) << 4)) & ~((w << 1) | 1) & R.ALL1  # lower half of its supernet
        def tiles(b, w_, depth):
            if depth == 0 or w_ == 0 or draw(st.sampled_from([True, True, False])) is False:
                return [[b, w_]]
            half = w_ >> 1
            return tiles(b, half, depth - 1) + tiles(b | (half + 1), half, depth - 1)
        nets = []
        lower, upper = tiles(x, w, draw(st.integers(1, 3))), tiles(x | (w + 1), w, draw(st.integers(1, 3)))
        for part, whole in ((lower, [x, w]), (upper, [x | (w + 1), w])):
            keep = draw(st.sampled_from(["pieces", "pieces", "both", "whole", "some"]))
            if keep in ("pieces", "both"):
                nets += part
            if keep in ("whole", "both"):
                nets.append(whole)
            if keep == "some":
                nets += part[: max(1, len(part) - 1)]
        order = draw(st.sampled_from(["as-is", "shuffled", "x-last", "reversed"]))
        if order == "shuffled":
            nets = list(draw(st.permutations(nets)))
        elif order == "reversed":
            nets.reverse()
        elif order == "x-last" and [x, w] in nets:
            nets.remove([x, w])
            nets.append([x, w])
    case = {"cls": cls, "platform": platform, "nets": nets,
            "styles": draw(st.lists(st.one_of(st.integers(0, 9), st.integers(0, 9), st.integers(0, 13)), min_size=1, max_size=4))}
    case["container"] = draw(st.sampled_from(["list", "list", "tuple", "iter", "generator"]))
    case["subclass"] = draw(st.sampled_from([False, False, False, False, True]))
    if draw(st.sampled_from(range(5))) == 0:
        case["spoil"] = draw(st.sampled_from(["note", "line"]))
    elif draw(st.sampled_from([True, False, False])):
        moves = []
        for _ in range(draw(st.integers(1, 3))):
            plen = draw(st.integers(20, 32))
            w2 = (1 << (32 - plen)) - 1
            moves.append([draw(st.integers(0, 11)), [(pool | draw(st.integers(0, 1023))) & ~w2 & R.ALL1, w2],
                          draw(st.sampled_from(["prefix", "line"]))])
        case["readdress"] = moves
    elif draw(st.integers(0, 9)) == 0:
        case["bad"] = draw(st.sampled_from(["nc", "foreign", "str"]))
        case["pos"] = draw(st.integers(0, 12))
        case["shape"] = draw(st.integers(0, 9))
        if case["bad"] == "nc" and cls == "AddressAg" and platform == "ios":
            case["bad"] = "foreign"
    return case


SUBS = [Sub("collapse", judge, strategy=case_st, quick=8000, thorough=120000, shards_thorough=48)]

# coverage-guided twins (fuzz/fuzz_hyp.py): atheris mutates the bytes Hypothesis decodes into cases of the same strategy
SUBS += [__import__("lib.harness", fromlist=["x"]).cov_sub('C14', s_) for s_ in list(SUBS) if s_.name in ('collapse',)]

MANIFEST = {
    "technique": "property-based testing: generated address lists (siblings, nesting, duplicates) through collapse(), output judged by interval-set equality and validity predicates",
    "text": "exploration: merged integer intervals of output and input are equal (nothing gained, nothing lost), length/order/class/platform/notes predicates hold and inputs stay untouched on thousands (quick) / 120 000 (thorough) generated lists for both address classes and platforms; refusal cases raise TypeError; a third of the cases collapse, re-address some inputs through their setters and collapse again",
    "note": "trusted: interval algebra of lib/refsem.py; minimality is not asserted; /0 results are outside the generated domain",
}
MANIFEST["engine"] = MANIFEST.get("engine", "hypothesis") + " + atheris (coverage-guided twins of the Hypothesis sub-checks, fuzz/fuzz_hyp.py: 2 jobs x 8 s quick, 8 jobs x 200 s thorough)"
MANIFEST["technique"] += "; plus coverage-guided fuzzing of the same strategies (atheris/libFuzzer mutates the byte stream Hypothesis decodes into cases, the same oracle runs inside the target, findings are re-judged outside it)"
