"""C18 Generated port/protocol ranges cover exactly the requested set."""
from __future__ import annotations

from hypothesis import strategies as st

from lib import gen as G
from lib import refsem as R
from lib.harness import Invalid, Sub, Verdict

PROPERTY = "C18"
LEVEL = "exploration"
RULE = ("cases: request strings (comma lists of 1..10 items, each a number or a-b with a<=b over 1..65535 resp. "
        "0..255; adjacent / overlapping / duplicate items allowed), side src or dst, tcp/udp templates from the "
        "ACE grammar with no operator / eq / range on the generated side and none / eq / neq / range on the other "
        "(lt/gt only to check the documented refusal), any other fields, port_count 1..6, port_range on/off, "
        "platform, port_nr; protocol requests with port-less templates. Oracle: every returned line is read by "
        "the strict reference reader and compared with the template (all fields but the generated one equal), "
        "eq lines have <= port_count operands, range lines correspond one-to-one and in order to the requested "
        "a-b items (port_range) or do not appear (no port_range), union of the generated sets == requested set "
        "(interval algebra). A ValueError is accepted only for combinations the function cannot express. "
        "Non-trivial: >= 2 lines returned and the request mixes ranges and singletons or hits the port_count "
        "boundary; distinct by canonical case")
RULE += ". Directed classes added after the seeded-change rounds: port-bearing and source-only tcp/udp templates for protocol requests"
ASSUMPTIONS = ["refsem strict reader; name tables from the library (pinned by C09)",
               "accepted refusals: range item with an eq template under port_range; any singleton item (or "
               "port_range off) with a range template; several eq ports per line on NX-OS; lt/gt templates"]


def parse_request(items):
    out = []
    for it in items:
        if isinstance(it, int):
            out.append((it, it, False))
        else:
            out.append((it[0], it[1], True))
    return out


def request_text(items) -> str:
    return ",".join(str(it) if isinstance(it, int) else f"{it[0]}-{it[1]}" for it in items)


def refusal_allowed(req, template_op, other_ops, port_range, port_count, platform) -> bool:
    has_range = any(r for _, _, r in req)
    singles = sum(1 for _, _, r in req if not r)
    expanded = sum((b - a + 1) if r else 1 for a, b, r in req)
    if template_op == "eq" and port_range and has_range:
        return True
    if template_op == "range":
        # the statement constrains the generated lines; a template that already carries 'range x y' may be
        # refused (the suite's own TODO rows expect ValueError for it) - if lines are returned they are judged
        return True
    n_eq = singles if port_range else expanded
    if platform == "nxos" and port_count > 1 and n_eq >= 2 and template_op in (None, "eq"):
        return True
    return False


def judge_ports(case) -> Verdict:
    from cisco_acl import range_ports

    rec, platform, side = case["rec"], case["platform"], case["side"]
    G.validate_rec(rec, platform)
    if side not in ("src", "dst") or rec["proto"] not in (6, 17):
        raise Invalid()
    items = case["items"]
    if not items or len(items) > 10:
        raise Invalid()
    for it in items:
        vals = [it] if isinstance(it, int) else list(it)
        if (not isinstance(it, int) and len(vals) != 2) or any(not isinstance(x, int) or not 1 <= x <= 65535 for x in vals):
            raise Invalid()
        if not isinstance(it, int) and vals[0] > vals[1]:
            raise Invalid()
    port_count, port_range, port_nr = case["port_count"], bool(case["port_range"]), bool(case["port_nr"])
    if not 1 <= port_count <= 6:
        raise Invalid()
    gkey, okey = ("sp", "dp") if side == "src" else ("dp", "sp")
    tpl = rec.get(gkey)
    top = tpl["op"] if tpl else None
    oop = rec[okey]["op"] if rec.get(okey) else None
    if top == "neq":
        raise Invalid()
    rec = dict(rec, ws=None)
    line = G.render_ace(rec, platform, noise=False)
    req = parse_request(items)
    want_set = R.iv_norm((a, b) for a, b, _ in req)
    kw = {("srcports" if side == "src" else "dstports"): request_text(items), "line": line, "platform": platform,
          "port_nr": port_nr, "port_count": port_count, "port_range": port_range}
    v = Verdict()
    detail = {"call": kw}
    must_refuse = any(op in ("lt", "gt") for op in (top, oop))
    may_refuse = refusal_allowed(req, top, oop, port_range, port_count, platform)
    v.label(f"template={top or 'none'}", "port_range" if port_range else "no-port_range", platform)
    try:
        lines = range_ports(**kw)
    except ValueError as ex:
        if must_refuse or may_refuse:
            v.label("refused")
            return v
        v.fail(f"ports:refused-expressible-request:template={top or 'none'}", dict(detail, error=str(ex)[:200]))
        return v
    if must_refuse:
        v.fail("ports:lt-gt-template-not-refused", dict(detail, lines=lines[:4]))
        return v
    detail["lines"] = lines
    names = G.names_fn(platform)
    base = G.rec_rule(G.strip_members(rec))
    got_sets, range_lines, eq_sizes = [], [], []
    for ln in lines:
        try:
            r = R.read_ace(ln, platform, names, G.lib_proto_native(platform), strict=True)
        except R.RefError as ex:
            v.fail("ports:line-not-valid-for-platform", dict(detail, line=ln, why=str(ex)[:200]))
            return v
        gen = r.sport if side == "src" else r.dport
        oth = r.dport if side == "src" else r.sport
        want_oth = base.dport if side == "src" else base.sport
        same = (r.seq == base.seq and r.action == base.action and r.proto == base.proto and
                r.src.meaning() == base.src.meaning() and r.dst.meaning() == base.dst.meaning() and
                r.options == base.options and
                (oth.ivs if oth else None) == (want_oth.ivs if want_oth else None) and
                (oth.op if oth else None) == (want_oth.op if want_oth else None))
        if not same:
            v.fail("ports:line-differs-from-template-in-another-field", dict(detail, line=ln))
            return v
        if gen is None:
            v.fail("ports:line-without-generated-port", dict(detail, line=ln))
            return v
        if port_nr and any(not t.isdigit() for t in _port_tokens(ln, side)):
            v.fail("ports:port_nr-renders-name", dict(detail, line=ln))
        got_sets.append(gen.ivs)
        if gen.op == "range":
            range_lines.append(tuple(sorted(gen.operands)))
        elif gen.op == "eq":
            eq_sizes.append(len(gen.operands))
            if len(gen.operands) > port_count:
                v.fail("ports:more-than-port_count-ports-in-a-line", dict(detail, line=ln))
        else:
            v.fail("ports:unexpected-operator", dict(detail, line=ln))
            return v
    union = R.iv_union(*got_sets) if got_sets else tuple()
    if union != want_set:
        extra = not R.iv_subset(union, want_set)
        missing = not R.iv_subset(want_set, union)
        v.fail("ports:set-" + ("extra" if extra else "") + ("missing" if missing else "") + f":template={top or 'none'}",
               dict(detail, want=list(want_set)[:8], got=list(union)[:8]))
    want_ranges = [(a, b) for a, b, r in req if r]
    if port_range and top in (None, "range"):
        if range_lines != want_ranges:
            v.fail("ports:range-lines-do-not-match-requested-ranges", dict(detail, want=want_ranges, got=range_lines))
        singles = {a for a, _, r in req if not r}
        for ln_set, ln in zip(got_sets, lines):
            pass
    if not port_range and range_lines and top != "range":
        v.fail("ports:range-line-although-port_range-off", detail)
    mixes = any(r for _, _, r in req) and any(not r for _, _, r in req)
    v.nt(len(lines) >= 2 and (mixes or (eq_sizes and max(eq_sizes) == port_count and port_count > 1)))
    v.label("lines")
    return v


def _port_tokens(line: str, side: str):
    toks = line.split()
    out, seen_addr = [], 0
    i = 0
    groups = []
    while i < len(toks):
        if toks[i] in R.OPERATORS:
            j = i + 1
            cur = []
            while j < len(toks) and toks[j] not in ("any", "host", "object-group", "addrgroup", "log", "log-input") \
                    and not toks[j][0].isdigit() or (j < len(toks) and toks[j].isdigit()):
                cur.append(toks[j])
                j += 1
            groups.append((i, cur))
            i = j
        else:
            i += 1
    _ = (out, seen_addr)
    return [t for _, g in groups for t in g if not t.isdigit() and t not in R.TCP_FLAGS and t != "established"] and \
        [t for _, g in groups for t in g if t not in R.TCP_FLAGS and t != "established"] or []


@st.composite
def ports_case_st(draw, tier):
    platform = draw(st.sampled_from(["ios", "ios", "nxos"]))
    side = draw(st.sampled_from(["src", "dst"]))
    rec = draw(G.ace_st(platform, kmax=2, groups=True, members=False, noise=False,
                        protos=st.sampled_from([6, 6, 17])))
    rec = G.to_native(rec, platform)
    gkey, okey = ("sp", "dp") if side == "src" else ("dp", "sp")
    tkind = draw(st.sampled_from(["none", "none", "none", "eq", "eq", "range", "ltgt"]))
    if tkind == "none":
        rec[gkey] = None
    elif tkind == "eq":
        rec[gkey] = {"op": "eq", "v": [draw(st.integers(1, 65535))], "nm": [-1]}
    elif tkind == "range":
        rec[gkey] = {"op": "range", "v": sorted([draw(st.integers(1, 100)), draw(st.integers(1, 100))]), "nm": [-1, -1]}
    else:
        rec[draw(st.sampled_from([gkey, okey]))] = {"op": draw(st.sampled_from(["lt", "gt"])), "v": [draw(st.integers(2, 65534))], "nm": [-1]}
    if rec.get(okey) and rec[okey]["op"] in ("lt", "gt") and tkind != "ltgt":
        rec[okey] = None
    items = []
    pv = st.one_of(st.integers(1, 30), st.integers(1, 30), st.sampled_from([1, 20, 21, 22, 23, 80, 443, 65534, 65535]),
                   st.integers(1, 65535),
                   # ports that carry a name on one platform / version only: a generated line must use THIS platform's names
                   st.sampled_from([135, 15001, 15002, 521, 3949, 514, 37, 139, 4500, 22, 389]))
    only = draw(st.sampled_from(["mixed", "mixed", "mixed", "ranges", "singles"]))
    for _ in range(draw(st.integers(1, 10))):
        is_range = {"mixed": draw(st.integers(0, 2)) == 0, "ranges": True, "singles": False}[only]
        if is_range:
            a = draw(pv)
            items.append([a, min(65535, a + draw(st.one_of(st.integers(0, 4), st.integers(0, 40))))])
        else:
            items.append(draw(pv))
    return {"rec": rec, "platform": platform, "side": side, "items": items, "port_count": draw(st.integers(1, 6)),
            "port_range": draw(st.booleans()), "port_nr": draw(st.booleans())}


# --------------------------------------------------------------------------------------- protocols
def judge_protocols(case) -> Verdict:
    from cisco_acl import range_protocols

    rec, platform = case["rec"], case["platform"]
    G.validate_rec(rec, platform)
    if rec.get("flags"):
        raise Invalid()
    has_ports = bool(rec.get("sp") or rec.get("dp"))
    items = case["items"]
    if not items or len(items) > 10:
        raise Invalid()
    for it in items:
        vals = [it] if isinstance(it, int) else list(it)
        if any(not isinstance(x, int) or not 0 <= x <= 255 for x in vals) or (len(vals) == 2 and vals[0] > vals[1]):
            raise Invalid()
    rec = dict(rec, ws=None)
    line = G.render_ace(rec, platform, noise=False)
    kw = {"protocols": request_text(items), "line": line, "platform": platform, "protocol_nr": bool(case["protocol_nr"])}
    v = Verdict()
    detail = {"call": kw}
    try:
        lines = range_protocols(**kw)
    except ValueError as ex:
        if has_ports:
            # a template that carries ports may be refused when the protocol changes (port names are
            # protocol specific, other protocols have no ports); returned lines are judged below
            v.label("refused-port-template")
            return v
        v.fail("protocols:refused", dict(detail, error=str(ex)[:200]))
        return v
    detail["lines"] = lines[:12]
    base = G.rec_rule(G.strip_members(rec))
    got = []
    for ln in lines:
        try:
            r = R.read_ace(ln, platform, G.names_fn(platform), G.lib_proto_native(platform), strict=True)
        except R.RefError as ex:
            v.fail("protocols:line-not-valid-for-platform", dict(detail, line=ln, why=str(ex)[:200]))
            return v
        same = (r.seq, r.action, r.src.meaning(), r.dst.meaning(), r.options) == \
               (base.seq, base.action, base.src.meaning(), base.dst.meaning(), base.options)
        if r.proto in (6, 17):
            # tcp / udp lines keep the template's ports (the only field that may differ is the protocol)
            same = same and all((a.op, a.ivs) == (b.op, b.ivs) if a and b else a is b
                                for a, b in ((r.sport, base.sport), (r.dport, base.dport)))
        else:
            same = same and (r.sport, r.dport) == (None, None)  # ports cannot be expressed for other protocols
        if not same:
            v.fail("protocols:line-differs-from-template-in-another-field" + (":ports" if has_ports else ""),
                   dict(detail, line=ln))
            return v
        tok = ln.split()[2 if base.seq else 1]
        if case["protocol_nr"] and not tok.isdigit() and not (r.sport or r.dport):
            v.fail("protocols:protocol_nr-renders-name", dict(detail, line=ln))
        got.append(r.proto)
    want = R.iv_norm((it, it) if isinstance(it, int) else (it[0], it[1]) for it in items)
    if R.iv_from_values(got) != want:
        v.fail("protocols:set-differs", dict(detail, got=sorted(set(got))[:20], want=list(want)))
    if len(got) != len(set(got)):
        v.label("duplicate-lines")
    v.nt(len(lines) >= 2)
    v.label("protocols")
    return v


@st.composite
def protocols_case_st(draw, tier):
    platform = draw(st.sampled_from(["ios", "nxos"]))
    rec = draw(G.ace_st(platform, kmax=2, groups=True, members=False, noise=False, protos=st.sampled_from([0, 0, 1, 47, 89])))
    rec = G.to_native(rec, platform)
    rec["sp"] = rec["dp"] = None
    rec["flags"] = []
    port_template = draw(st.sampled_from([True, False, False]))
    if port_template:
        rec["proto"] = draw(st.sampled_from([6, 17]))
        names = G.lib_port_names(rec["proto"], platform)
        rec["sp"] = draw(G.port_st(platform, names, True, False, False))
        rec["dp"] = draw(G.port_st(platform, names, False, False, False))
        if rec["sp"] and draw(st.sampled_from(range(3))) == 1:
            rec["dp"] = None  # a condition on the source side only
    else:
        rec["sp"] = rec["dp"] = None
    items = []
    pv = st.one_of(st.integers(0, 20), st.sampled_from([0, 1, 6, 17, 47, 50, 51, 88, 89, 255]), st.integers(0, 255))
    if port_template:
        pv = st.sampled_from([6, 17, 6, 17, 1, 5, 16, 18, 47])
    for _ in range(draw(st.integers(1, 8))):
        if draw(st.integers(0, 2)) == 0:
            a = draw(pv)
            items.append([a, min(255, a + draw(st.integers(0, 6)))])
        else:
            items.append(draw(pv))
    return {"rec": rec, "platform": platform, "items": items, "protocol_nr": draw(st.booleans())}


def judge_both(case) -> Verdict:
    """Metamorphic: a request for source AND destination ports yields the source-side lines followed by the
    destination-side lines of the two single-sided requests (each side is judged by the 'ports' sub-check)."""
    from cisco_acl import range_ports

    rec, platform = case["rec"], case["platform"]
    G.validate_rec(rec, platform)
    if rec["proto"] not in (6, 17) or any(rec.get(k) and rec[k]["op"] in ("neq", "lt", "gt") for k in ("sp", "dp")):
        raise Invalid()
    for items in (case["src"], case["dst"]):
        if not items or len(items) > 6:
            raise Invalid()
        for it in items:
            vals = [it] if isinstance(it, int) else list(it)
            if any(not isinstance(x, int) or not 1 <= x <= 65535 for x in vals) or (len(vals) == 2 and vals[0] > vals[1]) or len(vals) > 2:
                raise Invalid()
    line = G.render_ace(dict(rec, ws=None), platform, noise=False)
    kw = {"line": line, "platform": platform, "port_nr": bool(case["port_nr"]), "port_count": case["port_count"],
          "port_range": bool(case["port_range"])}
    if not 1 <= kw["port_count"] <= 6:
        raise Invalid()
    v = Verdict()
    v.label("both-sides")

    def call(**extra):
        try:
            return range_ports(**kw, **extra)
        except ValueError:
            return None

    src, dst = request_text(case["src"]), request_text(case["dst"])
    both, only_s, only_d = call(srcports=src, dstports=dst), call(srcports=src), call(dstports=dst)
    v.nt(both is not None and len(both) >= 2)
    if only_s is None or only_d is None:
        if both is not None:
            v.fail("both:returns-lines-although-one-side-is-refused", {"call": kw, "src": src, "dst": dst, "lines": both[:6]})
        return v
    if both is None:
        v.fail("both:refused-although-each-side-works", {"call": kw, "src": src, "dst": dst})
    elif both != only_s + only_d:
        v.fail("both:differs-from-source-lines-plus-destination-lines", {"call": kw, "src": src, "dst": dst, "both": both[:8],
                                                                        "src_only": only_s[:6], "dst_only": only_d[:6]})
    return v


@st.composite
def both_case_st(draw, tier):
    base = draw(ports_case_st(tier))
    rec = base["rec"]
    for k in ("sp", "dp"):
        if rec.get(k) and rec[k]["op"] in ("neq", "lt", "gt"):
            rec[k] = None
    other = draw(ports_case_st(tier))
    return {"rec": rec, "platform": base["platform"], "src": base["items"][:6], "dst": other["items"][:6],
            "port_count": base["port_count"], "port_range": base["port_range"], "port_nr": base["port_nr"]}


SUBS = [
    Sub("both-sides", judge_both, strategy=both_case_st, quick=600, thorough=20000),
    Sub("ports", judge_ports, strategy=ports_case_st, quick=3000, thorough=100000, shards_thorough=48),
    Sub("protocols", judge_protocols, strategy=protocols_case_st, quick=800, thorough=20000),
]

# coverage-guided twins (fuzz/fuzz_hyp.py): atheris mutates the bytes Hypothesis decodes into cases of the same strategy
SUBS += [__import__("lib.harness", fromlist=["x"]).cov_sub('C18', s_) for s_ in list(SUBS) if s_.name in ('ports',)]

MANIFEST = {
    "technique": "property-based testing: generated requests x templates x policies through range_ports / range_protocols; every returned line is re-read by the strict reference reader and the union of generated sets is compared with the requested set by interval algebra; an explicit expected-refusal predicate is part of the oracle",
    "text": "exploration: on thousands (quick) / 120 000 (thorough) generated calls the returned lines were valid for the platform, differed from the template only in the generated field, respected port_count and the range/eq policy and denoted exactly the requested set; refusals occurred only where the request is inexpressible",
    "note": "trusted: lib/refsem.py strict reader and interval algebra; neq templates on the generated side and non-tcp/udp templates are outside the property's quantifier; protocol requests use port-less templates",
}
MANIFEST["engine"] = MANIFEST.get("engine", "hypothesis") + " + atheris (coverage-guided twins of the Hypothesis sub-checks, fuzz/fuzz_hyp.py: 2 jobs x 8 s quick, 8 jobs x 200 s thorough)"
MANIFEST["technique"] += "; plus coverage-guided fuzzing of the same strategies (atheris/libFuzzer mutates the byte stream Hypothesis decodes into cases, the same oracle runs inside the target, findings are re-judged outside it)"
