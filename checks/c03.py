"""C03 Shadow detection is sound: a reported shadow is really covered."""
from __future__ import annotations

from hypothesis import strategies as st

from lib import acehelp as A
from lib import gen as G
from lib import refsem as R
from lib.harness import Invalid, Sub, Verdict

PROPERTY = "C03"
LEVEL = "exploration"
RULE = ("cases: ordered pairs (top, bottom) of ACE records, bottom derived from top by field-wise mutation "
        "(same / narrower / wider / disjoint / fresh), incl. address groups with 1..4 member networks, "
        "non-contiguous wildcards (k<=4), all five port operators incl. empty sets (lt 1, gt 65535), TCP flags "
        "and established, log tokens, both platforms; every pair is asked with the 5 skip lists. Oracle: a True "
        "answer implies same action and exact packet-set inclusion (refsem interval / bit algebra, union of "
        "members); answers are monotone in the skip set. Non-trivial: the library answered True for at "
        "least one skip list; distinct by canonical pair")
ASSUMPTIONS = ["refsem packet semantics (flag keywords: any-of; established = ack|rst; ports 1..65535)",
               "k <= 4 non-contiguous bits per address, <= 4 members per group"]


def judge(case) -> Verdict:
    top, bottom, platform = case["top"], case["bottom"], case["platform"]
    if platform not in ("ios", "nxos"):
        raise Invalid()
    G.validate_rec(top, platform)
    G.validate_rec(bottom, platform)
    try:
        rt, rb = G.rec_rule(top), G.rec_rule(bottom)
        t = A.build_ace(top, platform)
        b = A.build_ace(bottom, platform)
    except (KeyError, IndexError, TypeError) as ex:
        raise Invalid() from ex
    v = Verdict()
    included = R.rule_subset(rb, rt)
    same_action = top["action"] == bottom["action"]
    answers = []
    for skip in A.SKIPS:
        try:
            ans = b.shadow_of(t, skip=skip)
        except ValueError:
            ans = None  # documented refusal (addrgroup without addresses ...): no answer given
            v.label("refused-ValueError")
        answers.append(ans)
        if ans is True and not (same_action and included):
            why = "action-differs" if not same_action else "not-included"
            kind = "empty-top-portset" if any(s is not None and not s.ivs for s in (rt.sport, rt.dport)) else (
                "group" if G.rec_has_group(top) or G.rec_has_group(bottom) else "plain")
            v.fail(f"unsound:{why}:{kind}", {"top": t.line, "bottom": b.line, "skip": skip, "platform": platform,
                                             "top_members": top["src"].get("m"), "note": "reported shadow is not covered"})
            break
    if not v.fails:
        base, ag, nc, both1, both2 = answers
        for name, bigger, smaller in (("addrgroup", ag, base), ("nc_wildcard", nc, base),
                                      ("both>=addrgroup", both1, ag), ("both>=nc_wildcard", both1, nc),
                                      ("both-rev>=addrgroup", both2, ag), ("both-rev>=nc_wildcard", both2, nc)):
            if bigger is True and smaller is False:
                v.fail("skip-not-monotone", {"top": t.line, "bottom": b.line, "larger_skip": name,
                                            "answers": dict(zip(["none", "ag", "nc", "ag+nc", "nc+ag"], answers))})
                break
        if both1 != both2:
            v.fail("skip-order-matters", {"top": t.line, "bottom": b.line, "answers": [both1, both2]})
    v.nt(any(a is True for a in answers))
    v.label("lib-true" if answers[0] else "lib-false", "oracle-true" if (same_action and included) else "oracle-false")
    if G.rec_has_group(top):
        v.label("group-on-top")
    if G.rec_has_group(bottom):
        v.label("group-on-bottom")
    if G.rec_nc(top) or G.rec_nc(bottom):
        v.label("non-contiguous")
    if R.rule_is_empty(rb) or R.rule_is_empty(rt):
        v.label("empty-set-involved")
    return v


@st.composite
def pair_st(draw, tier):
    platform = draw(st.sampled_from(["ios", "nxos"]))
    top = draw(G.ace_st(platform, kmax=4, groups=True, members=True, empty_sets=True, seq=False, noise=False))
    bottom = draw(G.mutate_ace(top, platform, kmax=4, groups=True, empty_sets=True))
    if draw(st.integers(0, 9)) == 0:
        top, bottom = bottom, top
    return {"top": top, "bottom": bottom, "platform": platform}


SUBS = [Sub("pairs", judge, strategy=pair_st, quick=12000, thorough=200000, shards_thorough=64)]

MANIFEST = {
    "technique": "property-based testing with a derived-pair generator: Ace.shadow_of answers checked against exact packet-set inclusion computed by an independent reference (refsem), plus a metamorphic monotonicity relation over skip options",
    "text": "exploration: over thousands (quick) / 200 000 (thorough) generated ordered pairs x 5 skip lists, every True answer was confirmed as same action + exact inclusion by interval and bit algebra (no packet sampling), and no answer turned from False to True when a skip option was added",
    "note": "trusted: lib/refsem.py inclusion algebra and its flag/port conventions; bounded to k<=4 non-contiguous bits and <=4 group members; a ValueError from shadow_of is counted as 'no answer'",
}
