"""C03 Shadow detection is sound: a reported shadow is really covered."""
from __future__ import annotations

from hypothesis import strategies as st

from lib import acehelp as A
from lib import gen as G
from lib import refsem as R
from lib.harness import Invalid, Sub, Verdict

PROPERTY = "C03"
LEVEL = "exploration"
RULE = ("cases: ordered pairs (top, bottom) of ACE records, bottom derived from top by field-wise mutation "
        "(same / narrower / wider / disjoint / fresh), incl. address groups with 1..4 member networks, "
        "non-contiguous wildcards (k<=4), all five port operators incl. empty sets (lt 1, gt 65535), TCP flags "
        "and established, log tokens, both platforms; every pair is asked with the 5 skip lists. Oracle: a True "
        "answer implies same action and exact packet-set inclusion (refsem interval / bit algebra, union of "
        "members); answers are monotone in the skip set. Non-trivial: the library answered True for at "
        "least one skip list; distinct by canonical pair")
RULE += ". Directed classes added after the seeded-change rounds: port sets equal or one port apart at a run end in every one-operator spelling; 17-bit wildcards under max_ncwb=17 (rare); subnet-mask-shaped wildcards; a group below one network / one non-contiguous wildcard / a run of adjacent blocks"
ASSUMPTIONS = ["refsem packet semantics (flag keywords: any-of; established = ack|rst; ports 1..65535)",
               "k <= 4 non-contiguous bits per address (k = 7, 9 and, with a raised limit, 17 in rare directed classes), <= 4 members per group"]


def judge(case) -> Verdict:
    top, bottom, platform = case["top"], case["bottom"], case["platform"]
    if platform not in ("ios", "nxos"):
        raise Invalid()
    G.validate_rec(top, platform)
    G.validate_rec(bottom, platform)
    kw = {}
    if case.get("ncwb") is not None:
        if not isinstance(case["ncwb"], int) or not 0 <= case["ncwb"] <= 18:
            raise Invalid()
        kw["max_ncwb"] = case["ncwb"]
        # keep this class (and whatever the minimiser derives from it) cheap: one wide address, all others contiguous
        ks = sorted(len(R.nc_bits(pr[1])) for rec in (top, bottom) for sd in ("src", "dst")
                    for pr in (G.addr_members(rec[sd]) if rec[sd]["k"] == "group" else [G.addr_pair(rec[sd])]))
        if ks and (ks[-1] > 17 or (len(ks) > 1 and ks[-2] > 0)):
            raise Invalid()
    try:
        rt, rb = G.rec_rule(top), G.rec_rule(bottom)
        t = A.build_ace(top, platform, **kw)
        b = A.build_ace(bottom, platform, **kw)
    except (KeyError, IndexError, TypeError) as ex:
        raise Invalid() from ex
    v = Verdict()
    included = R.rule_subset(rb, rt)
    same_action = top["action"] == bottom["action"]
    answers = []
    for skip in A.SKIPS:
        try:
            ans = b.shadow_of(t, skip=skip)
        except ValueError:
            ans = None  # documented refusal (addrgroup without addresses ...): no answer given
            v.label("refused-ValueError")
        answers.append(ans)
        if ans is True and not (same_action and included):
            why = "action-differs" if not same_action else "not-included"
            kind = "empty-top-portset" if any(s is not None and not s.ivs for s in (rt.sport, rt.dport)) else (
                "group" if G.rec_has_group(top) or G.rec_has_group(bottom) else "plain")
            v.fail(f"unsound:{why}:{kind}", {"top": t.line, "bottom": b.line, "skip": skip, "platform": platform,
                                             "top_members": top["src"].get("m"), "note": "reported shadow is not covered"})
            break
    if not v.fails:
        base, ag, nc, both1, both2 = answers
        for name, bigger, smaller in (("addrgroup", ag, base), ("nc_wildcard", nc, base),
                                      ("both>=addrgroup", both1, ag), ("both>=nc_wildcard", both1, nc),
                                      ("both-rev>=addrgroup", both2, ag), ("both-rev>=nc_wildcard", both2, nc)):
            if bigger is True and smaller is False:
                v.fail("skip-not-monotone", {"top": t.line, "bottom": b.line, "larger_skip": name,
                                            "answers": dict(zip(["none", "ag", "nc", "ag+nc", "nc+ag"], answers))})
                break
        if both1 != both2:
            v.fail("skip-order-matters", {"top": t.line, "bottom": b.line, "answers": [both1, both2]})
    v.nt(any(a is True for a in answers))
    v.label("lib-true" if answers[0] else "lib-false", "oracle-true" if (same_action and included) else "oracle-false")
    if G.rec_has_group(top):
        v.label("group-on-top")
    if G.rec_has_group(bottom):
        v.label("group-on-bottom")
    if G.rec_nc(top) or G.rec_nc(bottom):
        v.label("non-contiguous")
    if R.rule_is_empty(rb) or R.rule_is_empty(rt):
        v.label("empty-set-involved")
    if kw:
        v.label("raised-limit-17-bits")
    return v


@st.composite
def pair_st(draw, tier):
    platform = draw(st.sampled_from(["ios", "nxos"]))
    kmax = draw(st.sampled_from([4] * 24 + [7] * 5 + [9]))
    top = draw(G.ace_st(platform, kmax=kmax, groups=True, members=True, empty_sets=True, seq=False, noise=False))
    bottom = draw(G.mutate_ace(top, platform, kmax=kmax, groups=True, empty_sets=True))
    if draw(st.integers(0, 9)) == 0:
        top, bottom = bottom, top
    if draw(st.sampled_from(range(6))) == 0:
        top, bottom = draw(G.flag_focus(top, bottom, established=True))
    if draw(st.integers(0, 19)) == 11:
        # a mask made of the highest k bits (subnet mask typed as wildcard) above an ordinary address below
        from checks.c13 import typo_mask_pair

        wide, plain = draw(typo_mask_pair())
        side = draw(st.sampled_from(["src", "dst"]))
        other = "dst" if side == "src" else "src"
        top[side], bottom[side] = wide, G.native_addr(G.addr_pair(plain), platform)
        bottom[other] = dict(top[other])
        bottom["action"], bottom["proto"], bottom["pn"] = top["action"], top["proto"], top["pn"]
        bottom["sp"], bottom["dp"], bottom["flags"] = top.get("sp"), top.get("dp"), list(top.get("flags") or [])
    if draw(st.sampled_from(range(7))) == 0:
        # port sets equal or one port apart at an end of a run / of the port space, in every spelling
        top, bottom = draw(G.port_focus(top, bottom, platform))
    if draw(st.sampled_from(range(8))) == 0:
        # one network (or one non-contiguous wildcard) on top, a group of several members below it (an outsider at any
        # position - also between two insiders - decides)
        from checks.c13 import group_under_net, group_under_wild

        net, grp = draw(st.one_of(group_under_net(), group_under_wild()))
        side = draw(st.sampled_from(["src", "dst"]))
        top[side] = G.native_addr(G.addr_pair(net), platform) if R.is_contiguous(net["w"]) else dict(net)
        if draw(st.booleans()):
            bottom = dict(top)  # everything else equal: this address decides alone
        bottom[side] = grp
        bottom["action"] = top["action"]
    elif draw(st.sampled_from(range(8))) == 0:
        # a group of consecutive equal-size networks on top, a neighbouring / inner / enclosing block below
        from checks.c13 import adjacent_run_group

        grp, net = draw(adjacent_run_group())
        side = draw(st.sampled_from(["src", "dst"]))
        top[side] = grp
        bottom[side] = G.native_addr(G.addr_pair(net), platform)
        bottom["action"] = top["action"]
        other = "dst" if side == "src" else "src"
        bottom[other] = dict(top[other])
    if draw(st.sampled_from(range(80))) == 0:
        # two large expansions (2^9 prefixes each) related by a few low bits: the cover test of the library
        # is quadratic here, so this class is kept rare
        side = draw(st.sampled_from(["src", "dst"]))
        hi = ((1 << 9) - 1) << draw(st.sampled_from([8, 9, 16]))
        low_t, low_b = draw(st.integers(0, 4)), draw(st.integers(0, 4))
        base = G.POOL_BASE & ~hi & R.ALL1
        for rec, low in ((top, low_t), (bottom, low_b)):
            w = hi | ((1 << low) - 1)
            rec[side] = {"k": "wild", "b": (base | draw(st.integers(0, 7))) & ~w & R.ALL1, "w": w}
        bottom["action"] = top["action"]
    # usual Cisco order 'log <other options>': the log keyword in front of the flag tokens
    for rec in (top, bottom):
        if rec.get("flags") and draw(st.sampled_from([True, False, False])):
            rec["logs"] = [draw(st.sampled_from(["log", "log-input"]))]
            rec["lf"] = True
    case = {"top": top, "bottom": bottom, "platform": platform}
    if draw(st.integers(0, 399)) == 257:  # (not 0: generators favour the ends of a range)
        # more non-contiguous bits than the default limit (objects created with max_ncwb=17): 2^17 prefixes below,
        # a prefix above that holds all of them, one half of them (either half) or everything. ~1 s per case: rare
        side = draw(st.sampled_from(["src", "dst"]))
        other = "dst" if side == "src" else "src"
        shift = draw(st.integers(1, 4))
        w = (((1 << 17) - 1) << shift) | ((1 << draw(st.integers(0, shift - 1))) - 1)
        base = G.POOL_BASE & ~w & R.ALL1
        wide = {"k": "wild", "b": base, "w": w}
        if draw(st.sampled_from(range(3))) == 0:
            wide = {"k": "group", "b": 0, "w": 0, "n": "G1", "m": [[base, w]]}
        span = 17 + shift
        pick = draw(st.sampled_from(["all", "lower-half", "upper-half", "any"]))
        if pick == "any":
            above = {"k": "any", "b": 0, "w": R.ALL1}
        else:
            bits = span if pick == "all" else span - 1
            b2 = base | ((1 << (span - 1)) if pick == "upper-half" else 0)
            above = G.native_addr((b2 & ~((1 << bits) - 1) & R.ALL1, (1 << bits) - 1), platform)
        for rec in (top, bottom):
            rec["sp"] = rec["dp"] = None
            rec["proto"], rec["flags"] = 0, []
        top[side], bottom[side] = above, wide
        if top[other]["k"] == "group" or not R.is_contiguous(G.addr_pair(top[other])[1]):
            top[other] = {"k": "any", "b": 0, "w": R.ALL1}
        bottom[other] = dict(top[other])
        bottom["action"] = top["action"]
        case["ncwb"] = 17
    return case


# --------------------------------------------------------------------------------------- member edits
def judge_edit(case) -> Verdict:
    """Ask, edit the attached member list of a group address IN PLACE, ask again: the second answer must be
    sound for the CURRENT members (no result may survive from before the edit)."""
    top, bottom, platform = dict(case["top"]), dict(case["bottom"]), case["platform"]
    if platform not in ("ios", "nxos"):
        raise Invalid()
    G.validate_rec(top, platform)
    G.validate_rec(bottom, platform)
    t = A.build_ace(top, platform)
    b = A.build_ace(bottom, platform)
    v = Verdict()
    skip = A.SKIPS[case.get("skip", 0) % len(A.SKIPS)]
    first = b.shadow_of(t, skip=skip)
    edited = 0
    for which, side, how, arg in case["edits"]:
        rec, ace = (top, t) if which == "top" else (bottom, b)
        a = rec["src" if side == "src" else "dst"]
        addr = ace.srcaddr if side == "src" else ace.dstaddr
        if a["k"] != "group":
            continue
        mem = [list(m) for m in a.get("m") or []]
        if how == "append":
            new = [arg[0] & ~arg[1] & R.ALL1, arg[1]]
            if len(R.nc_bits(new[1])) > 3:
                raise Invalid()
            addr.items.append(type(addr)(f"{R.int2ip(new[0])} {R.int2ip(new[1])}", platform=platform))
            mem.append(new)
        elif how == "pop" and mem:
            addr.items.pop()
            mem.pop()
        elif how == "line" and mem:
            new = [arg[0] & ~arg[1] & R.ALL1, arg[1]]
            if len(R.nc_bits(new[1])) > 3:
                raise Invalid()
            addr.items[0].line = f"{R.int2ip(new[0])} {R.int2ip(new[1])}"
            mem[0] = new
        else:
            continue
        edited += 1
        rec["src" if side == "src" else "dst"] = dict(a, m=mem)
    second = b.shadow_of(t, skip=skip)
    rt, rb = G.rec_rule(top), G.rec_rule(bottom)
    ok = top["action"] == bottom["action"] and R.rule_subset(rb, rt)
    if second is True and not ok:
        v.fail("unsound-after-member-edit", {"top": t.line, "bottom": b.line, "skip": skip, "first_answer": first,
                                             "top_src_members": [x.line for x in t.srcaddr.items],
                                             "bottom_src_members": [x.line for x in b.srcaddr.items],
                                             "top_dst_members": [x.line for x in t.dstaddr.items],
                                             "bottom_dst_members": [x.line for x in b.dstaddr.items]})
    fresh = A.build_ace(bottom, platform).shadow_of(A.build_ace(top, platform), skip=skip)
    if fresh != second:
        v.fail("answer-depends-on-earlier-query", {"top": t.line, "bottom": b.line, "skip": skip, "after_edit": second,
                                                   "fresh_objects": fresh})
    v.nt(edited > 0 and (first is True or second is True))
    v.label("edited" if edited else "no-edit", "first-true" if first else "first-false")
    return v


@st.composite
def edit_st(draw, tier):
    platform = draw(st.sampled_from(["ios", "nxos"]))
    grp = G.addr_st(kmax=2, groups=True, kinds=["group"])
    top = draw(G.ace_st(platform, kmax=2, groups=True, members=True, seq=False, noise=False, protos=st.sampled_from([0, 0, 6])))
    if not G.rec_has_group(top) or draw(st.booleans()):
        top[draw(st.sampled_from(["src", "dst"]))] = draw(grp)
    bottom = draw(G.mutate_ace(top, platform, kmax=2, groups=True))
    for side in ("src", "dst"):
        if top[side]["k"] == "group" and draw(st.booleans()):
            bottom[side] = dict(top[side], m=[list(m) for m in top[side]["m"]][: draw(st.integers(1, 4))])
    bottom["action"] = top["action"]
    edits = []
    for _ in range(draw(st.integers(1, 3))):
        w = draw(G.wildmask_st(2))
        edits.append([draw(st.sampled_from(["top", "bottom", "bottom"])), draw(st.sampled_from(["src", "dst"])),
                      draw(st.sampled_from(["append", "append", "pop", "line"])), [draw(G.base_st()), w]])
    return {"top": top, "bottom": bottom, "platform": platform, "edits": edits, "skip": draw(st.integers(0, 4))}


SUBS = [
    Sub("pairs", judge, strategy=pair_st, quick=12000, thorough=200000, shards_thorough=64),
    Sub("member-edit", judge_edit, strategy=edit_st, quick=2500, thorough=60000),
]

# coverage-guided twins (fuzz/fuzz_hyp.py): atheris mutates the bytes Hypothesis decodes into cases of the same strategy
SUBS += [__import__("lib.harness", fromlist=["x"]).cov_sub('C03', s_) for s_ in list(SUBS) if s_.name in ('pairs',)]

MANIFEST = {
    "technique": "property-based testing with a derived-pair generator: Ace.shadow_of answers checked against exact packet-set inclusion computed by an independent reference (refsem), plus a metamorphic monotonicity relation over skip options",
    "text": "exploration: over thousands (quick) / 200 000 (thorough) generated ordered pairs x 5 skip lists, every True answer was confirmed as same action + exact inclusion by interval and bit algebra (no packet sampling), and no answer turned from False to True when a skip option was added; query / in-place member edit / query histories must answer for the current members and agree with freshly built objects",
    "note": "trusted: lib/refsem.py inclusion algebra and its flag/port conventions; bounded to k<=4 non-contiguous bits and <=4 group members; a ValueError from shadow_of is counted as 'no answer'",
}
MANIFEST["engine"] = MANIFEST.get("engine", "hypothesis") + " + atheris (coverage-guided twins of the Hypothesis sub-checks, fuzz/fuzz_hyp.py: 2 jobs x 8 s quick, 8 jobs x 200 s thorough)"
MANIFEST["technique"] += "; plus coverage-guided fuzzing of the same strategies (atheris/libFuzzer mutates the byte stream Hypothesis decodes into cases, the same oracle runs inside the target, findings are re-judged outside it)"
