"""C08 Port operators denote exactly the Cisco port sets; views write back losslessly."""
from __future__ import annotations

from hypothesis import strategies as st

from lib import refsem as R
from lib.gen import lib_port_names, port_token
from lib.harness import Invalid, Sub, Verdict

PROPERTY = "C08"
LEVEL = "exploration"
RULE = ("cases: (operator, operands, platform, protocol, spelling, port_nr) port expressions - lt/gt over a "
        "boundary grid (quick) or every operand 1..65535 (thorough), range over all ordered pairs of a "
        "40-point boundary grid, eq/neq with 1..10 operands; arbitrary subsets of 1..65535 (unions of "
        "intervals and singletons) for the range-string codec; op-list histories of self-assignments "
        "through items/ports/sport on one object. Oracle: refsem interval sets + an independent "
        "range-string decoder; write-back must leave (line, operator, items, set(ports), sport) unchanged. "
        "Non-trivial: set size >= 2 or an operand on a boundary; histories: >= 2 different views used")
RULE += ". Directed classes added after the seeded-change rounds: a caller edits a list handed out by a getter, then a new object from the same text is judged; port expressions on objects without a tcp/udp protocol"
ASSUMPTIONS = ["port universe is 1..65535",
               "repeated operands ('eq 80 80'): write-back through the set-valued views (ports, sport) is judged "
               "by meaning and operator only, the duplicate may disappear from the text", "order of Port.ports is not judged (only the set)",
               "neq write-back through .ports is O(n^2) in the library and sampled thinly"]

BOUNDARY = [1, 2, 3, 4, 5, 6, 7, 9, 10, 11, 79, 80, 81, 127, 128, 129, 255, 256, 257, 511, 512, 513, 1023, 1024,
            1025, 4095, 4096, 4097, 32767, 32768, 32769, 49151, 49152, 65000, 65533, 65534, 65535, 21, 443, 8080]


def decode_sport(text: str):
    """Independent decoder of 'a,b-c,...'."""
    out = []
    if text == "":
        return tuple()
    for part in text.split(","):
        if "-" in part:
            a, b = part.split("-")
            out.append((int(a), int(b)))
        else:
            out.append((int(part), int(part)))
    return R.iv_norm(out)


def build(case):
    from cisco_acl import Port

    names = lib_port_names(6 if case["proto"] == "tcp" else 17, case["platform"], case.get("version", "0"))
    nm = case.get("nm") or []
    toks = [port_token(val, nm[i] if i < len(nm) else -1, names) for i, val in enumerate(case["v"])]
    line = case["op"] + " " + " ".join(toks)
    return line, Port(line, platform=case["platform"], protocol=case["proto"], port_nr=bool(case.get("port_nr")),
                      version=case.get("version", "0"))


def snapshot(p):
    return {"line": p.line, "operator": p.operator, "items": list(p.items), "ports": R.iv_from_values(p.ports),
            "sport": p.sport}


def validate_case(case):
    op, vals = case["op"], case["v"]
    if op not in R.OPERATORS or case["platform"] not in ("ios", "nxos", "asa") or case["proto"] not in ("tcp", "udp"):
        raise Invalid()
    if not vals or any((not isinstance(x, int)) or not 1 <= x <= 65535 for x in vals):
        raise Invalid()
    if op in ("lt", "gt") and len(vals) != 1 or op == "range" and len(vals) != 2:
        raise Invalid()
    if op in ("eq", "neq") and not 1 <= len(vals) <= (10 if case["platform"] == "ios" else 1):
        raise Invalid()


def check_views(v: Verdict, p, op, vals, where: str, sport_first: bool = False):
    want = R.port_set(op, vals)
    if sport_first:
        first_sport = p.sport  # read the range string BEFORE the port list (the views must not depend on read order)
        try:
            if decode_sport(first_sport) != want:
                v.fail(f"{where}:sport-read-first-decodes-to-other-set", {"line": p.line, "sport": first_sport[:80]})
        except ValueError:
            v.fail(f"{where}:sport-read-first-unparseable", {"line": p.line, "sport": first_sport[:80]})
    got = R.iv_from_values(p.ports)
    if got != want:
        v.fail(f"{where}:ports-set", {"line": p.line, "want": list(want)[:6], "got": list(got)[:6]})
    if p.operator != op:
        v.fail(f"{where}:operator", {"line": p.line, "got": p.operator})
    dup = len(set(vals)) != len(vals)  # a set-valued view cannot carry a repeated operand: judged as a set
    if (sorted(set(p.items)) != sorted(set(vals))) if dup else (sorted(p.items) != sorted(vals)):
        v.fail(f"{where}:items", {"line": p.line, "got": p.items, "want": sorted(vals)})
    try:
        dec = decode_sport(p.sport)
    except ValueError:
        dec = None
    if dec != want:
        v.fail(f"{where}:sport-decodes-to-other-set", {"line": p.line, "sport": p.sport[:80]})
    from cisco_acl import helpers as h

    back = R.iv_from_values(h.string_to_ports(p.sport))
    if back != want:
        v.fail(f"{where}:string_to_ports(sport)", {"line": p.line, "sport": p.sport[:80], "got": list(back)[:6]})


def write_back(v: Verdict, case, view: str, where: str):
    where = f"{where}:{case['op']}"
    """Assign the object's own view back; (line, operator, items, set(ports), sport) must not change."""
    _, q = build(case)
    before = snapshot(q)
    value = getattr(q, view)
    if isinstance(value, list):
        value = list(value)
    empty = not before["ports"]
    try:
        setattr(q, view, value)
    except (ValueError, TypeError) as ex:
        if empty:
            v.label("empty-set-writeback")
        v.fail(f"{where}:{view}-writeback-raises", {"line": before["line"], "error": f"{type(ex).__name__}: {ex}"[:200]})
        return
    except IndexError as ex:
        v.fail(f"{where}:{view}-writeback-IndexError", {"line": before["line"], "error": str(ex)})
        return
    after = snapshot(q)
    if len(set(case["v"])) != len(case["v"]) and view != "items":
        # repeated operands ('eq 80 80'): ports/sport are set-valued, only meaning and operator are compared
        before = {k: before[k] for k in ("operator", "ports")}
        after = {k: after[k] for k in ("operator", "ports")}
        v.label("dup-operands")
    if after != before:
        diff = {k: [str(before[k])[:80], str(after[k])[:80]] for k in before if before[k] != after[k]}
        v.fail(f"{where}:{view}-writeback-changes", {"line": q.line, "changed": diff})


def judge_obj(case) -> Verdict:
    validate_case(case)
    v = Verdict()
    op, vals = case["op"], case["v"]
    line, p = build(case)
    want = R.port_set(op, vals)
    v.label(op, "named" if any(not t.isdigit() for t in line.split()[1:]) else "numeric")
    v.nt(R.iv_size(want) >= 2 or any(x in (1, 2, 65534, 65535) for x in vals))
    if not want:
        v.label("empty-set")
    check_views(v, p, op, vals, "obj")
    if v.fails:
        return v
    write_back(v, case, "items", "obj")
    write_back(v, case, "sport", "obj")
    if op != "neq" or case.get("slow"):
        write_back(v, case, "ports", "obj")
    # re-read of the rendered text with an independent reader
    names = lib_port_names(6 if case["proto"] == "tcp" else 17, case["platform"], case.get("version", "0"))
    toks = p.line.split()
    try:
        vals2 = [int(t) if t.isdigit() else names[t] for t in toks[1:]]
    except KeyError as ex:
        v.fail("obj:renders-unknown-name", {"line": p.line, "name": str(ex)})
        return v
    if toks[0] != op or R.port_set(op, vals2) != want:
        v.fail("obj:rendered-text-means-other-set", {"input": line, "rendered": p.line})
    if case.get("port_nr") and any(not t.isdigit() for t in toks[1:]):
        v.fail("obj:port_nr-renders-name", {"rendered": p.line})
    return v


# --------------------------------------------------------------------------------------- generators
def enum_ltgt(tier, shard, nshards):
    ops = ("lt", "gt")
    values = range(1, 65536) if tier == "thorough" else sorted(set(BOUNDARY + list(range(1, 120, 7)) + list(range(1000, 65535, 1571))))
    idx = 0
    for n in values:
        for op in ops:
            if idx % nshards == shard:
                yield {"op": op, "v": [n], "platform": ("ios", "nxos", "asa")[n % 3], "proto": "tcp" if n % 2 else "udp",
                       "nm": [0 if n % 5 == 0 else -1], "port_nr": n % 11 == 0}
            idx += 1


def enum_range(tier, shard, nshards):
    idx = 0
    grid = BOUNDARY if tier == "thorough" else BOUNDARY[::3] + [255, 257, 65535]
    for a in grid:
        for b in grid:
            if idx % nshards == shard:
                yield {"op": "range", "v": [a, b], "platform": "ios" if idx % 2 else "nxos", "proto": "tcp",
                       "nm": [0 if idx % 3 == 0 else -1, -1], "port_nr": idx % 7 == 0}
            idx += 1


@st.composite
def obj_case(draw):
    platform = draw(st.sampled_from(["ios", "ios", "nxos", "asa"]))
    proto = draw(st.sampled_from(["tcp", "udp"]))
    version = draw(st.sampled_from(["0", "0", "15.2(02)SY", "16.09.06", "9.3(8)"]))
    names = lib_port_names(6 if proto == "tcp" else 17, platform, version)
    from lib.gen import named_anywhere

    pv = st.one_of(st.integers(1, 8), st.sampled_from(BOUNDARY), st.integers(1, 65535),
                   st.sampled_from(sorted(set(names.values()))),
                   st.sampled_from(named_anywhere()))  # numbers that carry a name in SOME table, maybe not in this one
    op = draw(st.sampled_from(["eq", "eq", "neq", "lt", "gt", "range", "range"]))
    if op in ("eq", "neq"):
        n = draw(st.integers(1, 10)) if platform == "ios" else 1
        vals = draw(st.lists(pv, min_size=n, max_size=n))
    elif op == "range":
        vals = [draw(pv), draw(pv)]
    else:
        vals = [draw(pv)]
    case = {"op": op, "v": vals, "platform": platform, "proto": proto, "version": version,
            "nm": [draw(st.sampled_from([-1, -1, 0, 1])) for _ in vals], "port_nr": draw(st.booleans())}
    if op == "neq" and draw(st.integers(0, 49)) == 0:
        case["slow"] = True
    return case


# --------------------------------------------------------------------------------------- no tcp/udp protocol
def judge_noproto(case) -> Verdict:
    """A port expression on an object that was given no tcp/udp protocol (keyword omitted, '', 'ip', 'icmp', or the
    line assigned to an empty object): the object renders no text, but operator, items, port list and range string
    are the expression's, and writing each of them back changes nothing and raises nothing."""
    from cisco_acl import Port

    op, vals, platform, how = case["op"], case["v"], case["platform"], case.get("how", "omitted")
    validate_case(dict(case, proto="tcp"))
    line = op + " " + " ".join(str(x) for x in vals)
    if how == "omitted":
        p = Port(line, platform=platform)
    elif how in ("", "ip", "icmp"):
        p = Port(line, platform=platform, protocol=how)
    elif how == "late-line":
        p = Port(platform=platform, protocol="tcp")
        p.line = line
    else:
        raise Invalid()
    v = Verdict()
    where = f"noproto:{op}"
    check_views(v, p, op, vals, where + ":fresh")
    if v.fails:
        return v
    for view in case.get("views") or ["items", "ports", "sport"]:
        if view not in ("items", "ports", "sport") or (view == "ports" and op == "neq"):
            continue
        before = snapshot(p)
        try:
            val = getattr(p, view)
            setattr(p, view, list(val) if isinstance(val, list) else val)
        except (ValueError, TypeError, IndexError) as ex:
            v.fail(f"{where}:{view}-writeback-raises", {"line": line, "how": how, "error": f"{type(ex).__name__}: {ex}"[:200]})
            return v
        check_views(v, p, op, vals, f"{where}:after-{view}")
        after = snapshot(p)
        if len(set(vals)) != len(vals):
            before = {k: before[k] for k in ("operator", "ports")}
            after = {k: after[k] for k in ("operator", "ports")}
        if after != before and not v.fails:
            v.fail(f"{where}:{view}-writeback-changes", {"line": line, "how": how,
                                                         "changed": [k for k in before if before[k] != after[k]]})
        if v.fails:
            return v
    v.nt()
    v.label(op, f"protocol={how or 'empty'}")
    return v


@st.composite
def noproto_case(draw):
    case = draw(obj_case())
    case.pop("slow", None)
    if case["op"] == "neq":
        case["v"] = case["v"][:2]
    return {"op": case["op"], "v": case["v"], "platform": case["platform"], "nm": [],
            "how": draw(st.sampled_from(["omitted", "omitted", "", "ip", "icmp", "late-line"])),
            "views": draw(st.permutations(["items", "ports", "sport"]))}


# --------------------------------------------------------------------------------------- codec
def judge_codec(case) -> Verdict:
    from cisco_acl import helpers as h

    v = Verdict()
    ivs = R.iv_clip(R.iv_norm([tuple(x) for x in case["ivs"]]), 1, 65535)
    values = list(R.iv_values(ivs))
    if case.get("dup"):
        values = values + values[: case["dup"]]
    if case.get("rev"):
        values = values[::-1]
    v.label(f"intervals={min(len(ivs), 9)}")
    v.nt(len(values) >= 2)
    text = h.ports_to_string(values)
    try:
        dec = decode_sport(text)
    except ValueError:
        v.fail("codec:unparseable", {"text": text[:200]})
        return v
    if dec != ivs:
        v.fail("codec:encodes-other-set", {"ivs": list(ivs)[:8], "text": text[:200]})
        return v
    back = h.string_to_ports(text)
    if R.iv_from_values(back) != ivs:
        v.fail("codec:decodes-to-other-set", {"text": text[:200], "got": list(R.iv_from_values(back))[:8]})
    if len(set(back)) != len(back):
        v.fail("codec:decode-duplicates", {"text": text[:200]})
    # encoding the library's own decode result again denotes the same set (text form is not judged)
    try:
        again = decode_sport(h.ports_to_string(back))
    except ValueError:
        again = None
    if again != ivs:
        v.fail("codec:re-encode-other-set", {"text": text[:120], "again": h.ports_to_string(back)[:120]})
    return v


@st.composite
def codec_case(draw):
    ivs = []
    for _ in range(draw(st.integers(0, 8))):
        kind = draw(st.integers(0, 3))
        if kind == 0:  # straddles a power of two
            p2 = 1 << draw(st.integers(3, 15))
            a = p2 - draw(st.integers(0, 40))
            b = p2 + draw(st.integers(0, 300))
        else:
            a = draw(st.one_of(st.integers(1, 300), st.integers(1, 65535)))
            b = a + draw(st.one_of(st.integers(0, 3), st.integers(0, 700)))
        ivs.append([max(1, a), min(65535, b)])
    for _ in range(draw(st.integers(0, 8))):
        x = draw(st.one_of(st.integers(1, 300), st.integers(1, 65535), st.sampled_from([1, 2, 65534, 65535])))
        ivs.append([x, x])
    return {"ivs": ivs, "dup": draw(st.sampled_from([0, 0, 1, 3])), "rev": draw(st.booleans())}


# --------------------------------------------------------------------------------------- histories
def judge_history(case) -> Verdict:
    """Self-assignments through the three writable views, port_nr toggles and new lines, on ONE object."""
    v = Verdict()
    cur = dict(case["init"])
    validate_case(cur)
    _, p = build(cur)
    views = set()
    for step, op in enumerate(case["ops"]):
        name = op[0]
        before = snapshot(p)
        try:
            if name in ("items", "ports", "sport"):
                if name == "ports" and cur["op"] == "neq":
                    continue
                val = getattr(p, name)
                setattr(p, name, list(val) if isinstance(val, list) else val)
                views.add(name)
            elif name == "port_nr":
                p.port_nr = bool(op[1])
                cur["port_nr"] = bool(op[1])
            elif name == "scribble":
                # a caller edits the list a getter handed out (nothing is claimed about THAT object afterwards);
                # an object created next from the same text must not have been touched by it
                got = getattr(p, "ports" if op[1] == "ports" else "items")
                if isinstance(got, list):
                    if op[2] == "append":
                        got.append(8080)
                    elif op[2] == "clear":
                        got.clear()
                    elif got:
                        got[0] = 4711
                _, p = build(cur)
                views.add("fresh-after-scribble")
            elif name == "swap-op":
                # same operands, other operator (gt N <-> lt N, eq list <-> neq list)
                other = {"gt": "lt", "lt": "gt", "eq": "neq", "neq": "eq"}.get(cur["op"])
                if other is None:
                    continue
                new = dict(cur, op=other, nm=[])
                p.line = new["op"] + " " + " ".join(str(x) for x in new["v"])
                cur = new
            elif name == "line":
                new = dict(cur, op=op[1], v=list(op[2]), nm=[])
                validate_case(new)
                p.line = new["op"] + " " + " ".join(str(x) for x in new["v"])
                cur = new
            else:
                raise Invalid()
        except (ValueError, TypeError) as ex:
            v.fail(f"hist:{cur['op']}:{name}-raises", {"before": before["line"], "error": f"{type(ex).__name__}: {ex}"[:200],
                                          "trace": case["ops"][: step + 1]})
            return v
        except IndexError as ex:
            v.fail(f"hist:{cur['op']}:{name}-IndexError", {"before": before["line"], "error": str(ex),
                                               "trace": case["ops"][: step + 1]})
            return v
        check_views(v, p, cur["op"], cur["v"], f"hist:{cur['op']}:after-{name}", sport_first=bool(case.get("sport_first")))
        if name in ("items", "ports", "sport") and not v.fails:
            after = snapshot(p)
            if len(set(cur["v"])) != len(cur["v"]):
                before = {k: before[k] for k in ("operator", "ports")}
                after = {k: after[k] for k in ("operator", "ports")}
            if after != before:
                diff = {k: [str(before[k])[:80], str(after[k])[:80]] for k in before if before[k] != after[k]}
                v.fail(f"hist:{cur['op']}:{name}-writeback-changes", {"before": before["line"], "changed": diff})
        if cur.get("port_nr") and any(not t.isdigit() for t in p.line.split()[1:]):
            v.fail("hist:port_nr-renders-name", {"line": p.line})
        if v.fails:
            v.fails = [(b, dict(d, trace=case["ops"][: step + 1]) if isinstance(d, dict) and "trace" not in d else d)
                       for b, d in v.fails]
            return v
    v.nt(len(views) >= 2)
    v.label(cur["op"], f"views={len(views)}")
    return v


@st.composite
def history_case(draw):
    init = draw(obj_case())
    init.pop("slow", None)
    ops = []
    for _ in range(draw(st.integers(2, 8))):
        kind = draw(st.sampled_from(["items", "ports", "sport", "sport", "port_nr", "line", "swap-op", "scribble"]))
        if kind == "scribble":
            ops.append(["scribble", draw(st.sampled_from(["ports", "items"])), draw(st.sampled_from(["append", "clear", "first"]))])
        elif kind == "port_nr":
            ops.append(["port_nr", draw(st.booleans())])
        elif kind == "line":
            new = draw(obj_case())
            if new["platform"] != init["platform"] and new["op"] in ("eq", "neq"):
                new["v"] = new["v"][:1]
            ops.append(["line", new["op"], new["v"]])
        else:
            ops.append([kind])
    return {"init": init, "ops": ops, "sport_first": draw(st.booleans())}


SUBS = [
    Sub("ltgt", judge_obj, enum=enum_ltgt, quick=1, thorough=1, shards_quick=16, shards_thorough=64,
        exhaustive=True),
    Sub("range-grid", judge_obj, enum=enum_range, quick=1, thorough=1, shards_quick=16, shards_thorough=16,
        exhaustive=True, exhaustive_quick=True),
    Sub("obj", judge_obj, strategy=lambda tier: obj_case(), quick=700, thorough=60000),
    Sub("codec", judge_codec, strategy=lambda tier: codec_case(), quick=1500, thorough=60000),
    Sub("history", judge_history, strategy=lambda tier: history_case(), quick=300, thorough=20000),
    Sub("no-protocol", judge_noproto, strategy=lambda tier: noproto_case(), quick=300, thorough=10000),
]

# coverage-guided twins (fuzz/fuzz_hyp.py): atheris mutates the bytes Hypothesis decodes into cases of the same strategy
SUBS += [__import__("lib.harness", fromlist=["x"]).cov_sub('C08', s_) for s_ in list(SUBS) if s_.name in ('obj', 'history')]


def evidence_extra(total):
    return {"exhaustive": False,
            "exhaustive_subdomains": "thorough: every lt/gt operand 1..65535; both tiers: all ordered pairs of a "
                                     "40-point boundary grid for range; the rest is sampled"}


MANIFEST = {
    "technique": "property-based testing: enumerated operator/operand grids + Hypothesis port expressions, interval-set codec cases and self-assignment histories against an independent interval-set model and decoder",
    "text": "exploration: no counterexample among every lt/gt operand (thorough), all boundary pairs for range, thousands of eq/neq/range expressions in names or numbers on both platforms, thousands of arbitrary port sets through the range-string codec, and op-list histories writing each view back into the same object",
    "note": "trusted: lib/refsem.py interval algebra and a ten-line decoder; port universe 1..65535; order of .ports not judged; neq write-back through .ports sampled thinly (quadratic in the library); empty sets (lt 1, gt 65535) must write back unchanged like any other expression",
}
MANIFEST["engine"] = MANIFEST.get("engine", "hypothesis") + " + atheris (coverage-guided twins of the Hypothesis sub-checks, fuzz/fuzz_hyp.py: 2 jobs x 8 s quick, 8 jobs x 200 s thorough)"
MANIFEST["technique"] += "; plus coverage-guided fuzzing of the same strategies (atheris/libFuzzer mutates the byte stream Hypothesis decodes into cases, the same oracle runs inside the target, findings are re-judged outside it)"
