"""C15 Grouping, ungrouping and sorting never lose, duplicate or split entries."""
from __future__ import annotations

from collections import Counter

from hypothesis import strategies as st

from lib import acehelp as A
from lib import gen as G
from lib.harness import Invalid, Sub, Verdict

PROPERTY = "C15"
LEVEL = "exploration"
RULE = ("cases: ACL programs with heading remarks at any position (none before the first ACE, heading-only "
        "blocks, plain remarks inside blocks, duplicate heading texts with low probability), several prefixes, "
        "group addresses with members; then group(prefix), ungroup(), a generated permutation of the top-level "
        "items applied through list methods / sort(key=) / reverse(), resequence + shuffle + sort(). Oracle: "
        "conservation (multisets of ACE and remark lines; text identical when headings are distinct), blocks "
        "contiguous with inner order after any permutation, sort() restores the numbered text, tcam_count() == "
        "1 + sum(prod(member counts or 1)) computed from the generated structure and constant under all the "
        "operations. Non-trivial: >= 2 blocks or a non-identity permutation; distinct by canonical case")
RULE += ". Directed classes added after the seeded-change rounds: interface bindings on the ACL; one entry object / one block object listed twice; explicit blocks among plain entries; headings with commas"
ASSUMPTIONS = ["'entry' = ACE: with duplicate heading texts the documented merge applies (duplicate heading remarks "
               "disappear, entries join the earlier block of the same heading)"]


def heading_of(lines, prefix):
    """For every line the nearest preceding heading text (or None)."""
    out, cur = [], None
    for kind, text in lines:
        if kind == "rem" and text.startswith(prefix):
            cur = text
        out.append(cur)
    return out


def want_tcam(acl_case) -> int:
    total = 1
    for it in acl_case["items"]:
        if it["t"] != "ace":
            continue
        n = 1
        for side in ("src", "dst"):
            a = it["rec"][side]
            if a["k"] == "group":
                n *= len(a.get("m") or []) or 1
        total += n
    return total


def judge(case) -> Verdict:
    from cisco_acl import AceGroup

    acl_case = dict(case["acl"], group_by="")
    G.validate_acl(acl_case)
    prefix = case["prefix"]
    if not prefix or not isinstance(prefix, str):
        raise Invalid()
    items = acl_case["items"]
    if not items:
        raise Invalid()
    v = Verdict()
    bind = case.get("bind") or {}
    if not all(isinstance(x, str) for k in ("input", "output") for x in bind.get(k) or []):
        raise Invalid()
    # interface bindings as the config-level functions record them: no influence on any of this
    acl = A.build_acl(acl_case, **{k: list(bind[k]) for k in ("input", "output") if bind.get(k)})
    if len(acl.items) != len(items):
        raise Invalid()
    reuse = case.get("reuse")
    if reuse:
        # ONE object listed at two positions of the ACL (an entry repeated by reference, not by copy)
        src, dst = reuse[0] % len(items), reuse[1] % (len(items) + 1)
        acl.items.insert(dst, acl.items[src])
        items = list(items)
        items.insert(dst, items[src])
        acl_case = dict(acl_case, items=items)
    t0 = acl.line
    kinds = [("rem", it["text"]) if it["t"] == "rem" else ("ace", None) for it in items]
    heads = [k[1] for k in kinds if k[0] == "rem" and k[1].startswith(prefix)]
    distinct = len(set(heads)) == len(heads)
    tcam = want_tcam(acl_case)
    detail = {"prefix": prefix, "t0": t0}

    def tcam_check(where):
        got = acl.tcam_count()
        if got != tcam:
            v.fail(f"tcam:{where}", dict(detail, got=got, want=tcam, text=acl.line))

    tcam_check("initial")
    # ---- (1) group then ungroup
    acl.group(prefix)
    t1 = acl.line
    lines0 = t0.split("\n")[1:]
    lines1 = t1.split("\n")[1:]
    if distinct:
        if t1 != t0:
            v.fail("group:text-changed", dict(detail, t1=t1))
    else:
        ace0 = Counter(ln for ln, k in zip(lines0, kinds) if k[0] == "ace")
        rem0 = Counter(ln for ln, k in zip(lines0, kinds) if k[0] == "rem" and not k[1].startswith(prefix))
        head0 = set(ln for ln, k in zip(lines0, kinds) if k[0] == "rem" and k[1].startswith(prefix))
        c1 = Counter(lines1)
        head1 = set(ln for ln in lines1 if ln in head0)
        rest1 = Counter({ln: n for ln, n in c1.items() if ln not in head0})
        if rest1 != ace0 + rem0:
            v.fail("group:entries-lost-or-duplicated:dup-headings", dict(detail, t1=t1))
        if head1 != head0:
            v.fail("group:heading-lost:dup-headings", dict(detail, t1=t1))
        if any(c1[h] != 1 for h in head1):
            v.fail("group:duplicate-heading-kept-twice", dict(detail, t1=t1))
    nblocks = sum(1 for o in acl.items if isinstance(o, AceGroup))
    if any(not isinstance(o, AceGroup) for o in acl.items):
        v.fail("group:ungrouped-top-level-item", dict(detail, t1=t1))
    tcam_check("after-group")
    if v.fails:
        return v
    if reuse:
        acl.ungroup()
        if distinct and acl.line != t0:
            v.fail("ungroup:text-changed:one-object-listed-twice", dict(detail, after=acl.line))
        elif not distinct and Counter(acl.line.split("\n")[1:]) - Counter(lines0):
            v.fail("ungroup:entries-invented:one-object-listed-twice", dict(detail, after=acl.line))
        tcam_check("after-ungroup")
        v.nt(nblocks >= 1)
        v.label("one-object-listed-twice", f"blocks={min(nblocks, 6)}")
        return v
    # ---- (2) permutation of the top-level items: blocks move as units
    blocks = [[x.line for x in o.items] for o in acl.items]
    perm = case.get("perm") or []
    order = list(range(len(acl.items)))
    how = case.get("how", "sortkey")
    if perm and len(order) > 1:
        # Fisher-Yates driven by the generated integers
        for i in range(len(order) - 1, 0, -1):
            j = perm[i % len(perm)] % (i + 1)
            order[i], order[j] = order[j], order[i]
    objs = list(acl.items)
    if how == "reverse":
        acl.reverse()
        order = list(range(len(objs)))[::-1]
    elif how == "sortkey":
        rank = {id(objs[src]): pos for pos, src in enumerate(order)}
        acl.sort(key=lambda o: rank[id(o)])
    elif how == "popinsert":
        for pos, src in enumerate(order):
            cur = acl.items.index(objs[src])  # noqa: uses __eq__ by text; identical blocks are interchangeable
            acl.insert(pos, acl.pop(cur))
    else:
        raise Invalid()
    want_lines = [ln for src in order for ln in blocks[src]]
    got_lines = acl.line.split("\n")[1:]
    ind = acl.indent
    if [ln[len(ind):] for ln in got_lines] != want_lines:
        v.fail(f"permute:{how}:block-split-or-inner-order-changed", dict(detail, order=order, got=acl.line))
    tcam_check("after-permutation")
    moved = order != list(range(len(order)))
    # ---- (3) resequence, shuffle, sort() restores the numbered order
    start, step = case.get("start", 10), case.get("step", 10)
    if not (1 <= start <= 1000 and 1 <= step <= 100):
        raise Invalid()
    acl.resequence(start, step)
    numbered = acl.line
    objs = list(acl.items)
    order2 = list(range(len(objs)))
    if perm and len(order2) > 1:
        for i in range(len(order2) - 1, 0, -1):
            j = perm[(i + 1) % len(perm)] % (i + 1)
            order2[i], order2[j] = order2[j], order2[i]
    rank2 = {id(objs[src]): pos for pos, src in enumerate(order2)}
    acl.sort(key=lambda o: rank2[id(o)])
    acl.sort()
    if acl.line != numbered:
        v.fail("sort:numbered-order-not-restored:grouped", dict(detail, numbered=numbered, got=acl.line, order=order2))
    tcam_check("after-resequence-sort")
    # ---- ungroup: nothing lost, and flat sort also restores
    acl.ungroup()
    t2 = acl.line
    if t2 != numbered:
        v.fail("ungroup:text-changed", dict(detail, before=numbered, after=t2))
    if any(isinstance(o, AceGroup) for o in acl.items):
        v.fail("ungroup:group-left", detail)
    flat = list(acl.items)
    order3 = list(range(len(flat)))
    if perm and len(order3) > 1:
        for i in range(len(order3) - 1, 0, -1):
            j = perm[(i + 2) % len(perm)] % (i + 1)
            order3[i], order3[j] = order3[j], order3[i]
    rank3 = {id(flat[src]): pos for pos, src in enumerate(order3)}
    acl.sort(key=lambda o: rank3[id(o)])
    acl.sort()
    if acl.line != numbered:
        v.fail("sort:numbered-order-not-restored:flat", dict(detail, numbered=numbered, got=acl.line))
    tcam_check("after-ungroup")
    acl.resequence(0)
    if [ln[len(ind):] for ln in acl.line.split("\n")[1:]] != want_lines:
        v.fail("roundtrip:text-differs-after-removing-numbers", dict(detail, got=acl.line, want=want_lines))
    # ---- the estimate follows in-place edits made after it was read (weights from the entries' own member lists,
    # cross-checked against the case-derived estimate first; the flat order may differ from the case order)
    from cisco_acl import Ace

    def weight(o) -> int:
        return (len(o.srcaddr.items) or 1) * (len(o.dstaddr.items) or 1)

    flat2 = list(acl.items)
    aces = [o for o in flat2 if isinstance(o, Ace)]
    if 1 + sum(weight(o) for o in aces) == tcam:
        mode = perm[0] % 3
        want2 = None
        if mode == 2:
            for o in aces:
                addr = next((a for a in (o.srcaddr, o.dstaddr) if len(a.items) >= 2), None)
                if addr is not None:
                    w0 = weight(o)
                    addr.items = list(addr.items)[:-1]
                    want2 = tcam - w0 + weight(o)
                    v.label("tcam-after-member-removal")
                    break
        if want2 is None and mode == 1 and aces:
            o = aces[perm[-1] % len(aces)]
            acl.append(o.copy())
            want2 = tcam + weight(o)
            v.label("tcam-after-append")
        if want2 is None and len(flat2) >= 2:
            last = flat2[-1]
            acl.pop()
            want2 = tcam - (weight(last) if isinstance(last, Ace) else 0)
            v.label("tcam-after-pop")
        if want2 is not None:
            got2 = acl.tcam_count()
            if got2 != want2:
                v.fail("tcam:after-in-place-edit", dict(detail, got=got2, want=want2, text=acl.line))
    v.nt(nblocks >= 2 or moved)
    v.label(f"blocks={min(nblocks, 6)}", "distinct-headings" if distinct else "duplicate-headings", how,
            "moved" if moved else "identity")
    if tcam > 1 + sum(1 for it in items if it["t"] == "ace"):
        v.label("tcam-with-members")
    return v


@st.composite
def case_st(draw, tier):
    acl = draw(G.acl_st(min_items=1, max_items=12, kmax=2, groups=True, members=True, seqs=False,
                        dup_headings=True, group_by=False, neq_multi=True, comma_headings=True))
    return {"acl": acl, "prefix": acl["prefix"], "perm": draw(st.lists(st.integers(0, 50), min_size=1, max_size=8)),
            "how": draw(st.sampled_from(["sortkey", "sortkey", "reverse", "popinsert"])),
            "start": draw(st.sampled_from([1, 10, 100])), "step": draw(st.sampled_from([1, 5, 10])),
            "bind": draw(st.sampled_from([{}, {}, {"input": ["interface Ethernet1/1"]},
                                          {"input": ["interface Ethernet1/1", "interface Ethernet1/2"], "output": ["interface Vlan5"]},
                                          {"output": ["interface Ethernet1/1", "interface Ethernet1/2"]}])),
            "reuse": draw(st.sampled_from([None, None, None, None, [draw(st.integers(0, 11)), draw(st.integers(0, 12))]]))}


def judge_mixed(case) -> Verdict:
    """Explicit AceGroup blocks among plain entries: resequence, permute the top level, sort() restores the
    numbered text; every block stays contiguous."""
    from cisco_acl import AceGroup

    acl_case = dict(case["acl"], group_by="")
    G.validate_acl(acl_case)
    if len(acl_case["items"]) < 2:
        raise Invalid()
    v = Verdict()
    acl = A.build_acl(acl_case)
    items = list(acl.items)
    if len(items) != len(acl_case["items"]):
        raise Invalid()
    if case.get("bare"):
        # ONE block given to the ACL as the bare object (not inside a list): it stays one block
        blk = AceGroup(items=items, platform=acl.platform, version=str(acl.version), port_nr=acl.port_nr,
                       protocol_nr=acl.protocol_nr, max_ncwb=acl.max_ncwb)
        acl.items = blk
        t0 = acl.line
        if len(acl.items) != 1 or not isinstance(acl.items[0], AceGroup):
            v.fail("mixed:bare-block-not-kept-as-one-block", {"top_level": [type(o).__name__ for o in acl.items][:6], "text": t0})
            return v
        acl.reverse()
        if acl.line != t0:
            v.fail("mixed:bare-block-split-by-reverse", {"before": t0, "after": acl.line})
        v.nt(len(items) >= 2)
        v.label("bare-block")
        return v
    # wrap generated slices into explicit blocks
    out, i = [], 0
    mapping = []  # per top-level object: indices of the generated items it holds
    spans = sorted((lo % len(items), max(1, ln)) for lo, ln in case["spans"])
    for lo, ln in spans:
        if lo < i:
            continue
        out.extend(items[i:lo])
        mapping.extend([k] for k in range(i, lo))
        out.append(AceGroup(items=items[lo:lo + ln], platform=acl.platform, version=str(acl.version), port_nr=acl.port_nr,
                            protocol_nr=acl.protocol_nr, max_ncwb=acl.max_ncwb))
        mapping.append(list(range(lo, lo + len(items[lo:lo + ln]))))
        i = lo + len(items[lo:lo + ln])
    out.extend(items[i:])
    mapping.extend([k] for k in range(i, len(items)))
    acl.items = out
    nblocks = sum(1 for o in acl.items if isinstance(o, AceGroup))
    nplain = len(acl.items) - nblocks
    if case.get("reuse_block") is not None and nblocks:
        # ONE block object listed at two positions of the ACL: flattening keeps both occurrences
        bpos = [k for k, o in enumerate(acl.items) if isinstance(o, AceGroup)]
        src = bpos[case["reuse_block"][0] % len(bpos)]
        dst = case["reuse_block"][1] % (len(acl.items) + 1)
        acl.items.insert(dst, acl.items[src])
        mapping.insert(dst, mapping[src])
        model = dict(acl_case, items=[acl_case["items"][k] for grp in mapping for k in grp])
        t0 = acl.line
        want = want_tcam(model)
        if acl.tcam_count() != want:
            v.fail("mixed:tcam:one-block-listed-twice", {"got": acl.tcam_count(), "want": want, "text": t0})
        acl.ungroup()
        if acl.line != t0:
            v.fail("mixed:ungroup:text-changed:one-block-listed-twice", {"before": t0, "after": acl.line})
        elif acl.tcam_count() != want:
            v.fail("mixed:tcam-after-ungroup:one-block-listed-twice", {"got": acl.tcam_count(), "want": want})
        v.nt()
        v.label("one-block-listed-twice")
        return v
    pre = case.get("pre_pop")
    if pre and len(acl.items) >= 2:
        # before anything carries a number (so that equal lines are really equal): the item AT a position is taken
        # out with pop(position) and put back elsewhere - also when an item with the same text stands before it
        before_objs = list(acl.items)
        i_, j_ = pre[0] % len(before_objs), pre[1] % len(before_objs)
        taken = acl.pop(i_)
        rest = before_objs[:i_] + before_objs[i_ + 1:]
        if taken is not before_objs[i_] or len(acl.items) != len(rest) or any(a is not b for a, b in zip(acl.items, rest)):
            v.fail("mixed:pop-by-position-took-another-object", {"position": i_, "text": [o.line for o in before_objs][:8]})
            return v
        acl.insert(j_, taken)
        if any(o.line == taken.line for o in rest):
            v.label("pop-next-to-an-equal-line")
    start, step = case.get("start", 10), case.get("step", 10)
    if not (1 <= start <= 1000 and 1 <= step <= 100):
        raise Invalid()
    tcam = want_tcam(acl_case)
    acl.resequence(start, step)
    numbered = acl.line
    objs = list(acl.items)
    order = list(range(len(objs)))
    perm = case.get("perm") or [0]
    for k in range(len(order) - 1, 0, -1):
        j = perm[k % len(perm)] % (k + 1)
        order[k], order[j] = order[j], order[k]
    if case.get("move") == "pop-insert":
        # every item is moved to its place with pop(position) / insert: the object AT that position is the one taken,
        # also when an item with the same text stands earlier
        for pos, src in enumerate(order):
            cur = next(k for k, o in enumerate(acl.items) if o is objs[src] and k >= pos)
            taken = acl.pop(cur)
            if taken is not objs[src]:
                v.fail("mixed:pop-returned-another-object", {"position": cur, "numbered": numbered})
                return v
            acl.insert(pos, taken)
        if [id(o) for o in acl.items] != [id(objs[k]) for k in order]:
            v.fail("mixed:pop-insert:objects-lost-or-listed-twice", {"numbered": numbered, "order": order, "got": acl.line})
            return v
    else:
        acl.items[:] = [objs[k] for k in order]
    want_lines = [x.line for k in order for x in (objs[k].items if isinstance(objs[k], AceGroup) else [objs[k]])]
    ind = acl.indent
    if [ln[len(ind):] for ln in acl.line.split("\n")[1:]] != want_lines:
        v.fail("mixed:block-split-after-permutation", {"numbered": numbered, "order": order, "got": acl.line})
    acl.sort()
    if acl.line != numbered:
        v.fail("mixed:sort-does-not-restore-numbered-order", {"numbered": numbered, "order": order, "got": acl.line})
    if acl.tcam_count() != tcam:
        v.fail("mixed:tcam", {"got": acl.tcam_count(), "want": tcam})
    v.nt(nblocks >= 1 and nplain >= 1 and order != list(range(len(order))))
    v.label(f"blocks={min(nblocks, 4)}", f"plain={min(nplain, 6)}", "mixed" if nblocks and nplain else "uniform")
    return v


@st.composite
def mixed_st(draw, tier):
    acl = draw(G.acl_st(min_items=2, max_items=10, kmax=2, groups=True, members=True, seqs=False, headings=False,
                        group_by=False))
    n = len(acl["items"])
    return {"acl": acl, "spans": [[draw(st.integers(0, n)), draw(st.integers(1, 3))] for _ in range(draw(st.integers(1, 3)))],
            "perm": draw(st.lists(st.integers(0, 50), min_size=1, max_size=8)),
            "start": draw(st.sampled_from([1, 10, 100])), "step": draw(st.sampled_from([1, 5, 10])),
            "reuse_block": draw(st.sampled_from([None, None, None, [draw(st.integers(0, 3)), draw(st.integers(0, 12))]])),
            "bare": draw(st.sampled_from([False] * 7 + [True])), "move": draw(st.sampled_from(["slice", "pop-insert"])),
            "pre_pop": draw(st.sampled_from([None, [draw(st.integers(0, 11)), draw(st.integers(0, 11))]]))}


def judge_inplace(case) -> Verdict:
    """An ACL created empty with a group_by prefix and filled in place (the way cisco_acl.aces() builds its
    result): ungroup(), resequence, assign a permutation of the items, sort() - the numbered text comes back
    and no entry is lost, duplicated or packed into a block."""
    from cisco_acl import AceGroup, Acl

    acl_case = dict(case["acl"])
    G.validate_acl(acl_case)
    prefix = case["prefix"]
    if not acl_case["items"] or not prefix:
        raise Invalid()
    v = Verdict()
    src = A.build_acl(dict(acl_case, group_by=""))
    acl = Acl(name=acl_case["name"], platform=acl_case["platform"], group_by=prefix)
    for obj in src.items:
        acl.items.append(obj)
    acl.ungroup()
    if acl.group_by:
        v.fail("inplace:ungroup-keeps-prefix", {"group_by": acl.group_by})
    acl.resequence(10, 10)
    numbered = acl.line
    objs = list(acl.items)
    order = list(range(len(objs)))
    perm = case.get("perm") or [0]
    for k in range(len(order) - 1, 0, -1):
        j = perm[k % len(perm)] % (k + 1)
        order[k], order[j] = order[j], order[k]
    acl.items = [objs[k] for k in order]
    if any(isinstance(o, AceGroup) for o in acl.items) or len(acl.items) != len(objs):
        v.fail("inplace:assignment-regroups-an-ungrouped-acl", {"numbered": numbered, "got": acl.line,
                                                               "top_level": [type(o).__name__ for o in acl.items]})
    acl.sort()
    if acl.line != numbered:
        v.fail("inplace:sort-does-not-restore-numbered-order", {"numbered": numbered, "got": acl.line, "order": order})
    v.nt(order != list(range(len(order))))
    v.label("in-place-fill")
    return v


@st.composite
def inplace_st(draw, tier):
    acl = draw(G.acl_st(min_items=2, max_items=8, kmax=2, groups=False, seqs=False, group_by=False))
    return {"acl": acl, "prefix": acl["prefix"], "perm": draw(st.lists(st.integers(0, 50), min_size=1, max_size=8))}


SUBS = [
    Sub("in-place-fill", judge_inplace, strategy=inplace_st, quick=600, thorough=15000),
    Sub("group-sort", judge, strategy=case_st, quick=4000, thorough=60000, shards_thorough=48),
    Sub("mixed-top-level", judge_mixed, strategy=mixed_st, quick=1500, thorough=30000),
]

MANIFEST = {
    "technique": "property-based testing with generated ACL programs and generated permutations: conservation laws (multisets, text equality), block contiguity after arbitrary reordering, sort() as inverse of shuffling after resequence, and a TCAM count recomputed from the generated structure",
    "text": "exploration: thousands (quick) / 60 000 (thorough) generated ACLs went through group -> permute -> resequence -> shuffle -> sort -> ungroup -> shuffle -> sort; text, multisets, block integrity and the TCAM estimate agreed with the model at every stage",
    "note": "trusted: the conservation laws stated in the property; duplicate heading texts follow the documented merge; permutations are applied with list methods / sort(key) only",
}
