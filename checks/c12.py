"""C12 No rule line is lost without a trace when objects are built from text."""
from __future__ import annotations

import logging

from hypothesis import strategies as st

from lib import acehelp as A
from lib import gen as G
from lib import refsem as R
from lib.harness import Invalid, Sub, Verdict, capture
from checks.c13 import member_text

PROPERTY = "C12"
LEVEL = "exploration"
RULE = ("cases: texts for Acl(line=), AceGroup(line=) and AddrGroup(line=) whose body mixes, in any order and "
        "proportion, valid lines (ACEs, remarks, members), documented ignorable lines (statistics / description "
        "/ ignore), invalid lines (ACE prefixes, truncated ACEs, out-of-range octets, bare numbers, "
        "foreign-platform group keywords, lines of other config sections, junk) and over-limit wildcards, plus "
        "blank lines, on both platforms. Oracle: accounting - either construction raised a value/type error, or "
        "every non-empty body line is, in order, an item (generated-valid lines must be items with the same "
        "meaning), an ignorable line, or named in a WARNING record (ACL / AceGroup) resp. any log record "
        "(AddrGroup); no item is left over. Non-trivial: the body mixes at least one valid and one "
        "invalid/ignorable line; distinct by canonical text")
RULE += ". Directed classes added after the seeded-change rounds: header-like invalid lines; opaque options with free-text operands; long remark texts"
ASSUMPTIONS = ["a log record names a line when it contains repr(line) of the whitespace-normalised line (for address "
               "groups also of the line without its leading sequence number)",
               "lines the library accepts although the generator labelled them invalid are accounted as items"]

IGNORABLE = ("statistics ", "description ", "ignore ")


def _norm(s: str) -> str:
    return " ".join(s.split())


def judge_acl(case) -> Verdict:
    from cisco_acl import AceGroup, Acl

    platform, target = case["platform"], case["target"]
    if platform not in ("ios", "nxos") or target not in ("acl", "acegroup"):
        raise Invalid()
    body = []
    for ln in case["lines"]:
        if ln["kind"] in ("ace", "rem"):
            item = {"t": ln["kind"], "rec": ln.get("rec"), "text": ln.get("text"), "seq": ln.get("seq", 0)}
            G.validate_acl({"platform": platform, "items": [item]})
            body.append((ln["kind"], G.item_line(item, platform, noise=False)))
        elif ln["kind"] in ("ignorable", "invalid", "blank", "overlimit"):
            if not isinstance(ln.get("text"), str) or "\n" in ln["text"]:
                raise Invalid()
            if ln["kind"] == "ignorable" and not ln["text"].startswith(IGNORABLE):
                raise Invalid()
            if ln["kind"] == "blank" and ln["text"].strip():
                raise Invalid()
            body.append((ln["kind"], ln["text"]))
        else:
            raise Invalid()
    ind = case.get("indent", " ")
    hdr = "ip access-list extended T" if platform == "ios" else "ip access-list T"
    text = "\n".join(ind + s for _, s in body)
    cap = capture()
    cap.clear()
    v = Verdict()
    kinds = {k for k, _ in body}
    v.nt(bool(kinds & {"ace", "rem"}) and bool(kinds & {"ignorable", "invalid", "overlimit"}))
    v.label(target, *sorted(kinds))
    group_by = case.get("group_by") or ""
    if group_by:
        # read with a heading marker: the same lines, in blocks; markers are distinct texts (equal ones are merged by
        # design), also when they agree up to a comma
        marks = [s for k, s in body if k == "rem" and _norm(s).split("remark ", 1)[-1].startswith(group_by)]
        if target != "acl" or len(set(marks)) != len(marks) or any(len(m) > 100 for m in marks):
            raise Invalid()
        v.label("read-with-group_by")
    try:
        if target == "acl":
            obj = Acl(hdr + "\n" + text, platform=platform, **({"group_by": group_by} if group_by else {}))
        else:
            obj = AceGroup(text, platform=platform)
    except (ValueError, TypeError) as ex:
        v.label("construction-raised:" + type(ex).__name__)
        return v
    warned = [r.getMessage() for r in cap.records if r.levelno >= logging.WARNING]
    items = list(A.flat_items(obj.items)) if group_by else list(obj.items)
    detail = {"target": target, "platform": platform, "text": text, "items": [o.line for o in items], "warnings": warned}
    p = 0
    names = G.names_fn(platform)
    for kind, raw in body:
        ln = _norm(raw)
        if not ln:
            continue
        named = any(repr(ln) in msg for msg in warned)
        if kind in ("ace", "rem"):
            if p >= len(items):
                v.fail(f"{target}:valid-line-dropped" + (":but-warned" if named else ":silently"), dict(detail, line=ln))
                return v
            try:
                want = R.read_body_line(ln, platform=platform, names=names, proto_names=G.lib_proto_any())
                got = R.read_body_line(items[p].line, platform=platform, names=names, proto_names=G.lib_proto_any())
            except R.RefError as ex:
                v.fail(f"{target}:item-unreadable", dict(detail, line=ln, item=items[p].line, why=str(ex)[:200]))
                return v
            same = (want == got) if isinstance(want, R.RemarkLine) else (
                not isinstance(got, R.RemarkLine) and want.meaning() == got.meaning() and want.seq == got.seq)
            if not same:
                v.fail(f"{target}:valid-line-dropped-or-out-of-order" + (":but-warned" if named else ":silently"),
                       dict(detail, line=ln, item=items[p].line))
                return v
            p += 1
            continue
        if named:
            continue
        if ln.startswith(IGNORABLE):
            continue
        # neither warned nor ignorable: it must have become an item
        if p < len(items):
            p += 1
            v.label("invalid-line-accepted-as-item")
            continue
        v.fail(f"{target}:line-lost-without-trace", dict(detail, line=ln, kind=kind))
        return v
    if p != len(items):
        v.fail(f"{target}:items-invented", dict(detail, consumed=p))
    return v


INVALID_LINES = [
    "permit", "deny", "permit ip", "permit ip any", "deny tcp any eq", "permit tcp any any range 5",
    "permit ip host 300.1.1.1 any", "permit ip 10.0.0.0 0.0.0.256 any", "permit ip 10.0.0.0/33 any", "10", "4294967296",
    "permit ip addrgroup X any", "permit ip any object-group", "ip address 10.0.0.1 255.255.255.0", "no shutdown",
    "interface Ethernet1", "router bgp 65000", "evaluate X", "permit tcp any any eq", "10 20 permit ip any any x",
    "remark", "20 remark", "permit 256 any any", "permit foo any any", "permit ip any any 5tuple", "!", "exit",
    "permit tcp any gt any", "deny ip host any", "permit ip 1.1.1.1 any", "PERMIT ip any any", "allow ip any any",
    "permit udp any lt 70000 any", "object-group network X", "host 10.0.0.1", "10.0.0.0/24",
    "ip access-list extended OTHER", "ip access-list OTHER", "ip access-list standard 10", "end",
]


@st.composite
def acl_case_st(draw, tier):
    platform = draw(st.sampled_from(["ios", "nxos"]))
    pool = [draw(G.ace_st(platform, kmax=2, groups=True, members=False, noise=False, opaque=True)) for _ in range(2)]
    lines = []
    for _ in range(draw(st.integers(1, 10))):
        kind = draw(st.sampled_from(["ace", "ace", "ace", "rem", "ignorable", "invalid", "invalid", "blank", "overlimit"]))
        if kind == "ace":
            rec = draw(st.one_of(st.sampled_from(pool), G.mutate_ace(draw(st.sampled_from(pool)), platform, kmax=2)))
            rec = G.to_native(rec, platform)
            rec["seq"] = draw(st.sampled_from([0, 0, 10, 20]))
            lines.append({"kind": "ace", "rec": rec})
        elif kind == "rem":
            lines.append({"kind": "rem", "text": draw(G.remark_text_st()), "seq": draw(st.sampled_from([0, 30]))})
        elif kind == "ignorable":
            lines.append({"kind": kind, "text": draw(st.sampled_from(["statistics per-entry", "description some text",
                                                                      "ignore this", "statistics per-entry x"]))})
        elif kind == "invalid":
            base = draw(st.sampled_from(INVALID_LINES))
            if draw(st.integers(0, 3)) == 0:
                base = draw(st.sampled_from(["10 ", "", "  "])) + base
            lines.append({"kind": kind, "text": base})
        elif kind == "blank":
            lines.append({"kind": kind, "text": draw(st.sampled_from(["", "  ", "\t"]))})
        else:
            lines.append({"kind": kind, "text": "permit ip 10.0.0.0 255.85.85.84 any" if draw(st.booleans())
                          else "permit ip any 0.0.0.0 255.255.85.84"})
    case = {"target": draw(st.sampled_from(["acl", "acl", "acegroup"])), "platform": platform, "lines": lines,
            "indent": draw(st.sampled_from([" ", "  ", "", "\t"]))}
    if case["target"] == "acl" and draw(st.sampled_from(range(4))) == 2:
        case["group_by"] = "= "
        heads = draw(st.lists(st.sampled_from(["= C-1, web servers", "= C-1, db servers", "= C-2", "= C-1", "= C-2, x", "= D"]),
                              min_size=1, max_size=3, unique=True))
        for h_ in heads:
            lines.insert(draw(st.integers(0, len(lines))), {"kind": "rem", "text": h_, "seq": 0})
    return case


# --------------------------------------------------------------------------------------- address groups
def judge_addrgroup(case) -> Verdict:
    from cisco_acl import AddrGroup

    platform = case["platform"]
    if platform not in ("ios", "nxos"):
        raise Invalid()
    body = []
    for ln in case["lines"]:
        if ln["kind"] == "member":
            pair = tuple(ln["pair"])
            if pair[0] & pair[1] or not R.is_contiguous(pair[1]) or (platform == "ios" and pair[1] == R.ALL1):
                raise Invalid()
            body.append(("member", member_text(pair, platform, ln.get("style", 0), ln.get("seq", 0))))
        elif ln["kind"] in ("description", "invalid", "blank"):
            if not isinstance(ln.get("text"), str) or "\n" in ln["text"]:
                raise Invalid()
            body.append((ln["kind"], ln["text"]))
        else:
            raise Invalid()
    head = ("object-group network " if platform == "ios" else "object-group ip address ") + "G"
    text = head + "\n" + "\n".join(" " + s for _, s in body)
    cap = capture()
    cap.clear()
    v = Verdict()
    kinds = {k for k, _ in body}
    v.nt("member" in kinds and bool(kinds & {"description", "invalid"}))
    v.label("addrgroup", *sorted(kinds))
    try:
        grp = AddrGroup(text, platform=platform)
    except (ValueError, TypeError) as ex:
        v.label("construction-raised:" + type(ex).__name__)
        return v
    logged = [r.getMessage() for r in cap.records]
    items = list(grp.items)
    detail = {"platform": platform, "text": text, "items": [o.line for o in items], "log": logged}
    p = 0
    for kind, raw in body:
        ln = _norm(raw)
        if not ln:
            continue
        tail = ln.split(" ", 1)[1] if ln.split(" ", 1)[0].isdigit() and " " in ln else ln
        named = any(repr(ln) in msg or repr(tail) in msg for msg in logged)
        if kind == "member":
            if p >= len(items):
                v.fail("addrgroup:valid-member-dropped", dict(detail, line=ln))
                return v
            try:
                want = R.read_member(ln, platform)
                got = R.read_member(items[p].line, platform)
            except R.RefError as ex:
                v.fail("addrgroup:item-unreadable", dict(detail, line=ln, item=items[p].line, why=str(ex)[:200]))
                return v
            if want != got:
                v.fail("addrgroup:valid-member-dropped-or-out-of-order", dict(detail, line=ln, item=items[p].line))
                return v
            p += 1
            continue
        if named:
            continue
        if p < len(items):
            p += 1
            v.label("invalid-line-accepted-as-item")
            continue
        v.fail("addrgroup:line-lost-without-trace", dict(detail, line=ln, kind=kind))
        return v
    if p != len(items):
        v.fail("addrgroup:items-invented", dict(detail, consumed=p))
    return v


INVALID_MEMBERS = ["10.0.0.0", "host", "host 300.1.1.1", "10.0.0.0/33", "range 10.0.0.1 10.0.0.9", "any", "permit ip any any",
                   "10.0.0.0 255.0.255.0", "group-object", "addrgroup X", "10.0.0.1 host", "x", "10 20 host 1.1.1.1",
                   "0.0.0.0 0.0.0.0", "10.0.0.0 85.85.85.85 extra"]


@st.composite
def addrgroup_case_st(draw, tier):
    platform = draw(st.sampled_from(["ios", "nxos"]))
    lines = []
    for _ in range(draw(st.integers(1, 8))):
        kind = draw(st.sampled_from(["member", "member", "member", "description", "invalid", "blank"]))
        if kind == "member":
            w = (1 << (32 - draw(st.integers(8, 32)))) - 1
            lines.append({"kind": kind, "pair": [draw(G.base_st()) & ~w & R.ALL1, w], "style": draw(st.integers(0, 3)),
                          "seq": draw(st.sampled_from([0, 0, 10, 20])) if platform == "nxos" else 0})
        elif kind == "description":
            lines.append({"kind": kind, "text": "description " + draw(G.remark_text_st())})
        elif kind == "invalid":
            lines.append({"kind": kind, "text": draw(st.sampled_from(INVALID_MEMBERS))})
        else:
            lines.append({"kind": kind, "text": draw(st.sampled_from(["", "  "]))})
    return {"platform": platform, "lines": lines}


SUBS = [
    Sub("acl", judge_acl, strategy=acl_case_st, quick=2500, thorough=80000, shards_thorough=48),
    Sub("addrgroup", judge_addrgroup, strategy=addrgroup_case_st, quick=1500, thorough=30000),
]

# coverage-guided twins (fuzz/fuzz_hyp.py): atheris mutates the bytes Hypothesis decodes into cases of the same strategy
SUBS += [__import__("lib.harness", fromlist=["x"]).cov_sub('C12', s_) for s_ in list(SUBS) if s_.name in ('acl',)]

MANIFEST = {
    "technique": "property-based testing with a line-accounting oracle: generated bodies mixing valid, ignorable, invalid and over-limit lines; items, WARNING/log records captured from the root logger and raised errors must together account for every non-empty line in order",
    "text": "exploration: every non-empty body line of thousands (quick) / 110 000 (thorough) generated Acl / AceGroup / AddrGroup texts was accounted for (item in position with the same meaning, documented ignorable line, log record naming the line, or construction error); no valid line was dropped and no item invented",
    "note": "trusted: lib/refsem.py for the meaning of valid lines and the repr()-based matching of log messages; lines labelled invalid by the generator but accepted by the library are counted as items",
}
MANIFEST["engine"] = MANIFEST.get("engine", "hypothesis") + " + atheris (coverage-guided twins of the Hypothesis sub-checks, fuzz/fuzz_hyp.py: 2 jobs x 8 s quick, 8 jobs x 200 s thorough)"
MANIFEST["technique"] += "; plus coverage-guided fuzzing of the same strategies (atheris/libFuzzer mutates the byte stream Hypothesis decodes into cases, the same oracle runs inside the target, findings are re-judged outside it)"
