"""C04 Deleting shadowed entries never changes any packet's permit/deny decision."""
from __future__ import annotations

from hypothesis import strategies as st

from lib import acehelp as A
from lib import gen as G
from lib import refsem as R
from lib.harness import Invalid, Sub, Verdict

PROPERTY = "C04"
LEVEL = "exploration"
RULE = ("cases: ACL programs (0..12 items) whose ACEs come from a small pool and its mutations, so duplicates, "
        "covers and interleaved opposite-action entries are frequent; sequence-numbered or not; flat or grouped "
        "by remark prefix; group addresses with member networks; empty port sets included; one of the 5 skip "
        "lists. Oracle: (1) returned report == shading() taken just before; (2) the item list afterwards embeds "
        "order-preservingly in the list before, only ACEs are dropped, survivors keep text, numbers and block; "
        "(3) witness: every dropped ACE has an earlier same-action ACE whose packet set includes it (exact, "
        "refsem) - hence every first-match decision is unchanged for all packets; cross-checked by boundary "
        "packet sampling; (4) shading() afterwards is empty and a second removal returns {} and changes "
        "nothing. Non-trivial: at least one ACE was removed; distinct by canonical program + skip")
RULE += ". Directed classes added after the seeded-change rounds: C03's derived pairs embedded in ACLs (incl. the 17-bit class with the raised limit); query - edit the covering group in place - remove; a group below one non-contiguous wildcard"
ASSUMPTIONS = ["native spelling per platform so that text comparison is meaningful",
               "refsem packet semantics; k<=3 non-contiguous bits; <=4 group members"]


def judge(case) -> Verdict:
    from cisco_acl import Ace

    acl_case, skip = case["acl"], case.get("skip")
    G.validate_acl(acl_case)
    acl_case = dict(acl_case, items=list(acl_case["items"]))
    if not G.groups_consistent(acl_case["items"]):
        raise Invalid()  # one group name = one member list (the ACL text only carries the name)
    if skip not in A.SKIPS:
        raise Invalid()
    platform = acl_case["platform"]
    for it in acl_case["items"]:
        if it["t"] == "ace" and not all(G.addr_is_native(it["rec"][s], platform) for s in ("src", "dst")):
            raise Invalid()
    acl = A.build_acl(acl_case)
    before = list(A.flat_with_block(acl.items))
    before_objs = list(A.flat_items(acl.items))
    if len(before) != len(acl_case["items"]):
        raise Invalid()
    text_before = acl.line
    v = Verdict()
    edits = case.get("edits") or []
    if edits:
        # history: a shadow query, then the member list of a group address is edited IN PLACE, then the
        # removal - everything below is judged against the CURRENT members
        warm = acl.shading(skip)
        acl.shadow_of(skip)
        gnames = sorted({it["rec"][side]["n"] for it in acl_case["items"] if it["t"] == "ace" for side in ("src", "dst")
                         if it["rec"][side]["k"] == "group"})
        # groups that take part in the report just queried come first: editing them changes what is covered
        text = " ".join(list(warm) + [x for ls in warm.values() for x in ls]).split()
        gnames = [g for g in gnames if g in text] + [g for g in gnames if g not in text]
        done = 0
        for pick, how, arg in edits:
            if not gnames:
                break
            gname = gnames[pick % len(gnames)]
            new = [arg[0] & ~arg[1] & R.ALL1, arg[1]]
            if len(R.nc_bits(new[1])) > 3:
                raise Invalid()
            # the group changes: every address that references it is edited the same way
            for i, it in enumerate(acl_case["items"]):
                if it["t"] != "ace":
                    continue
                for side in ("src", "dst"):
                    rec = acl_case["items"][i]["rec"]
                    if rec[side]["k"] != "group" or rec[side]["n"] != gname:
                        continue
                    addr = before_objs[i].srcaddr if side == "src" else before_objs[i].dstaddr
                    mem = [list(m) for m in rec[side].get("m") or []]
                    if how == "append":
                        addr.items.append(type(addr)(f"{R.int2ip(new[0])} {R.int2ip(new[1])}", platform=platform))
                        mem.append(new)
                    elif how == "pop" and mem:
                        addr.items.pop()
                        mem.pop()
                    elif how == "line" and mem:
                        addr.items[0].line = f"{R.int2ip(new[0])} {R.int2ip(new[1])}"
                        mem[0] = new
                    elif how == "replace" and mem:
                        # the group now holds one far-away host: whatever it covered before is uncovered
                        far = R.ip2int("203.0.113.7")
                        while len(addr.items) > 1:
                            addr.items.pop()
                        addr.items[0].line = f"{R.int2ip(far)} 0.0.0.0"
                        mem[:] = [[far, 0]]
                    else:
                        continue
                    done += 1
                    acl_case["items"][i] = dict(acl_case["items"][i], rec=dict(rec, **{side: dict(rec[side], m=mem)}))
        if done:
            v.label("member-edit-after-query")
    report = acl.shading(skip)
    if acl.line != text_before:
        v.fail("shading-mutates-acl", {"before": text_before, "after": acl.line})
        return v
    ret = acl.delete_shadow(skip)
    after = list(A.flat_with_block(acl.items))
    detail = {"acl": text_before, "skip": skip, "after": acl.line, "report": ret}
    if ret != report:
        v.fail("report-differs-from-shading", dict(detail, shading=report))
    # (2) order-preserving embedding; only ACEs may be dropped
    dropped, i = [], 0
    ok = True
    for item in after:
        while i < len(before) and before[i] != item:
            dropped.append(i)
            i += 1
        if i == len(before):
            ok = False
            break
        i += 1
    dropped.extend(range(i, len(before)))
    if not ok:
        kind = "text-or-order-changed"
        lines_b = [b[0] for b in before]
        if all(a[0] in lines_b for a in after) and sorted(a[0] for a in after) != sorted(set(a[0] for a in after)):
            kind = "text-or-order-changed"
        if [a[0] for a in after] != [b[0] for b in before if b[0] in {x[0] for x in after}] and \
                all(any(a[0] == b[0] for b in before) for a in after):
            # same lines survive but in another block or order
            pass
        v.fail(f"survivors:{kind}", detail)
        return v
    for idx in dropped:
        if acl_case["items"][idx]["t"] != "ace":
            v.fail("dropped:remark-removed", dict(detail, line=before[idx][0]))
            return v
    # the surviving entries are untouched: attached group members (part of their meaning) and notes
    survivors = [i for i in range(len(before)) if i not in set(dropped)]
    for obj, i in zip(A.flat_items(acl.items), survivors):
        it = acl_case["items"][i]
        if it["t"] != "ace":
            continue
        for side, attr in (("src", "srcaddr"), ("dst", "dstaddr")):
            if it["rec"][side]["k"] == "group":
                got_m = [x.wildcard for x in getattr(obj, attr).items]
                want_m = [f"{R.int2ip(b)} {R.int2ip(w)}" for b, w in G.addr_members(it["rec"][side])]
                if got_m != want_m:
                    v.fail("survivors:group-members-changed", dict(detail, line=obj.line, members=got_m, want=want_m))
                    return v
    # (3) witness
    recs = [it.get("rec") for it in acl_case["items"]]
    for idx in dropped:
        bot = recs[idx]
        wit = [j for j in range(idx) if recs[j] is not None and recs[j]["action"] == bot["action"]
               and R.rule_subset(G.rec_rule(bot), G.rec_rule(recs[j]))]
        if not wit:
            empty_top = any(recs[j] is not None and any(p is not None and not p.ivs for p in
                                                       (G.rec_rule(recs[j]).sport, G.rec_rule(recs[j]).dport))
                            for j in range(idx))
            v.fail("dropped:not-covered-by-an-earlier-entry" + (":empty-top-portset" if empty_top else ""),
                   dict(detail, line=before[idx][0]))
            return v
    rules_before = [G.rec_rule(r) for r in recs if r is not None]
    keep = set(range(len(recs))) - set(dropped)
    rules_after = [G.rec_rule(recs[j]) for j in sorted(keep) if recs[j] is not None]
    if dropped:
        diff = A.first_match_differs(rules_before, rules_after)
        if diff:
            v.fail("decision-changed-for-sampled-packet", dict(detail, **diff))
    # reported shadow lines are exactly the dropped lines (as multiset of texts, keyed report)
    rep_lines = sorted(s for ls in report.values() for s in ls)
    drop_lines = sorted(set(before[idx][0] for idx in dropped))
    if sorted(set(rep_lines)) != drop_lines:
        v.fail("report-lines-differ-from-removed-lines", dict(detail, removed=drop_lines))
    # (4) idempotence
    if not v.fails:
        again_rep = acl.shading(skip)
        text_after = acl.line
        again = acl.delete_shadow(skip)
        if again_rep or again or acl.line != text_after:
            v.fail("second-removal-finds-something", dict(detail, second_report=again or again_rep, second_text=acl.line))
    v.nt(bool(dropped))
    v.label("removed" if dropped else "nothing-removed", "grouped" if acl_case.get("group_by") else "flat")
    lines = [b[0] for b in before]
    if len(set(lines)) != len(lines):
        v.label("duplicate-lines")
    if any(r is not None and r.get("seq") for r in recs):
        v.label("sequence-numbered")
    if any(recs[i] is not None and any(recs[j] is not None and recs[j]["action"] != recs[i]["action"]
                                       for j in range(i)) for i in dropped):
        v.label("opposite-action-above")
    _ = (Ace, before_objs)
    return v


@st.composite
def embedded_pair_st(draw, tier):
    """A derived (top, bottom) pair from the C03 generator (gap ports, related flag sets, groups under a
    network, adjacent runs, large masks ...) embedded in an ACL with filler entries between them."""
    from checks.c03 import pair_st

    pair = draw(pair_st(tier))
    platform = pair["platform"]
    items = [{"t": "ace", "rec": G.to_native(pair["top"], platform)}]
    for _ in range(draw(st.integers(0, 2))):
        if draw(st.booleans()):
            items.append({"t": "rem", "text": "x " + draw(G.remark_text_st()), "seq": 0})
        else:
            items.append({"t": "ace", "rec": G.to_native(draw(G.ace_st(platform, kmax=2, seq=False, noise=False)), platform)})
    items.append({"t": "ace", "rec": G.to_native(pair["bottom"], platform)})
    for it in items:
        if it["t"] == "ace":
            it["rec"]["seq"] = 0
    G.normalise_groups(items)
    acl = {"platform": platform, "name": "T", "type": "extended", "items": items, "prefix": "= ", "group_by": "", "indent": "  "}
    if pair.get("ncwb"):
        acl["max_ncwb"] = pair["ncwb"]  # the rare 17-bit class of C03: the ACL is read with the raised limit
        acl["items"] = [items[0], items[-1]]
    return {"acl": acl, "skip": draw(st.sampled_from(A.SKIPS))}


@st.composite
def stale_report_st(draw, tier):
    """An entry covered only through the members of a group on the entry above it; the report is queried, the group is
    emptied of what covered it (in place, text unchanged), then shadows are removed."""
    platform = draw(st.sampled_from(["ios", "nxos"]))
    mem = []
    for _ in range(draw(st.integers(1, 3))):
        w = (1 << draw(st.integers(0, 8))) - 1
        mem.append([draw(G.base_st()) & ~w & R.ALL1, w])
    top = draw(G.ace_st(platform, kmax=0, seq=False, noise=False, established=False))
    side = draw(st.sampled_from(["src", "dst"]))
    top[side] = {"k": "group", "b": 0, "w": 0, "n": "G1", "m": mem}
    inner = draw(st.sampled_from(mem))
    bottom = dict(top)
    bottom[side] = G.native_addr((inner[0] | (draw(st.integers(0, 255)) & inner[1]), 0), platform)
    items = [{"t": "ace", "rec": G.to_native(top, platform)}]
    for _ in range(draw(st.integers(0, 2))):
        items.append({"t": "rem", "text": "x " + draw(G.remark_text_st()), "seq": 0})
    items.append({"t": "ace", "rec": G.to_native(bottom, platform)})
    acl = {"platform": platform, "name": "T", "type": "extended", "items": items, "prefix": "= ", "group_by": "", "indent": "  "}
    return {"acl": acl, "skip": draw(st.sampled_from([None, None, ["nc_wildcard"]])),
            "edits": [[0, draw(st.sampled_from(["replace", "replace", "pop", "line"])), [R.ip2int("198.51.100.9"), 0]]]}


@st.composite
def group_below_st(draw, tier):
    """A group of several members below one network / one non-contiguous wildcard / a run of adjacent blocks that
    holds most of them; everything else in the two entries is equal, so the members decide alone."""
    from checks.c13 import adjacent_run_group, group_under_net, group_under_wild

    platform = draw(st.sampled_from(["ios", "nxos"]))
    top = draw(G.ace_st(platform, kmax=0, seq=False, noise=False, established=False))
    side = draw(st.sampled_from(["src", "dst"]))
    if draw(st.sampled_from(range(4))) == 2:
        # groups on BOTH sides of the upper entry, their names related (one ends with / starts with the other);
        # below it an entry whose address on one side lies in the OTHER side's group only
        n1, n2 = draw(st.sampled_from([("WEB", "DMZ-WEB"), ("DMZ-WEB", "WEB"), ("G1", "G11"), ("NET-A", "A")]))
        m1 = [[(G.POOL_BASE | 1 << 16 | draw(st.integers(0, 255)) << 8), 0xFF] for _ in range(draw(st.integers(1, 2)))]
        m2 = [[(G.POOL_BASE | 2 << 16 | draw(st.integers(0, 255)) << 8), 0xFF] for _ in range(draw(st.integers(1, 2)))]
        top["src"] = {"k": "group", "b": 0, "w": 0, "n": n1, "m": m1}
        top["dst"] = {"k": "group", "b": 0, "w": 0, "n": n2, "m": m2}
        bottom = dict(top)
        inner = draw(st.sampled_from(m1 if side == "dst" else m2))  # a network of the other side's group
        bottom[side] = G.native_addr((inner[0] | draw(st.integers(0, 255)), 0), platform)
        items = [{"t": "ace", "rec": G.to_native(top, platform)}, {"t": "ace", "rec": G.to_native(bottom, platform)}]
        acl = {"platform": platform, "name": "T", "type": "extended", "items": items, "prefix": "= ", "group_by": "", "indent": "  "}
        return {"acl": acl, "skip": None}
    a, b = draw(st.one_of(group_under_net(), group_under_net(), group_under_wild(), group_under_wild(), adjacent_run_group()))
    if draw(st.sampled_from(range(4))) == 1:
        # the upper entry holds exactly one member of the group below; another member of that group contains it
        plen = draw(st.integers(20, 32))
        w = (1 << (32 - plen)) - 1
        nb = draw(G.base_st()) & ~w & R.ALL1
        w2 = (1 << (32 - plen + draw(st.integers(1, 6)))) - 1
        mem = [[nb, w], [nb & ~w2 & R.ALL1, w2]]
        if draw(st.booleans()):
            mem.reverse()
        if draw(st.booleans()):
            mem.insert(draw(st.integers(0, 2)), [nb | (w >> 1 if w else 0), 0] if w else [nb, 0])
        a = {"k": "prefix", "b": nb, "w": w}
        b = {"k": "group", "b": 0, "w": 0, "n": "G1", "m": mem}
    bottom = dict(top)
    for rec, ad in ((top, a), (bottom, b)):
        rec[side] = ad if ad["k"] == "group" or not R.is_contiguous(ad["w"]) else G.native_addr(G.addr_pair(ad), platform)
    items = [{"t": "ace", "rec": G.to_native(top, platform)}, {"t": "ace", "rec": G.to_native(bottom, platform)}]
    if draw(st.booleans()):
        items.insert(1, {"t": "rem", "text": "x between", "seq": 0})
    G.normalise_groups(items)
    acl = {"platform": platform, "name": "T", "type": "extended", "items": items, "prefix": "= ", "group_by": "", "indent": "  "}
    return {"acl": acl, "skip": draw(st.sampled_from([None, None, ["nc_wildcard"], ["addrgroup"]]))}


@st.composite
def case_st(draw, tier):
    if draw(st.sampled_from(range(3))) == 0:
        return draw(embedded_pair_st(tier))
    if draw(st.integers(0, 9)) in (3, 7):
        return draw(group_below_st(tier))
    if draw(st.integers(0, 9)) == 5:
        return draw(stale_report_st(tier))
    acl = draw(G.acl_st(min_items=3, max_items=12, kmax=3, groups=True, members=True, seqs=True, empty_sets=True, native=True,
                        multi=True))
    case = {"acl": acl, "skip": draw(st.sampled_from(A.SKIPS))}
    if draw(st.sampled_from([True, False, False])):
        case["edits"] = [[draw(st.sampled_from([0, 0, 0, 1, 2, 3])), draw(st.sampled_from(["append", "pop", "line", "replace", "replace", "replace"])),
                          [draw(G.base_st()), draw(G.wildmask_st(2))]] for _ in range(draw(st.integers(1, 3)))]
    return case


SUBS = [Sub("delete", judge, strategy=case_st, quick=3000, thorough=40000, shards_thorough=48)]

MANIFEST = {
    "technique": "property-based testing over generated ACL programs: delete_shadow() judged by an exact cover witness per removed entry (refsem inclusion), an order-preserving embedding of the survivors, report equality and idempotence; boundary packet sampling as a cross-check",
    "text": "exploration: on thousands (quick) / 40 000 (thorough) generated ACLs every removed ACE had an earlier same-action ACE that provably includes it (so no packet's first-match decision can change), survivors kept text / numbers / order / block, the returned report equalled shading(), and a second removal found nothing; a third of the cases first query the report, then edit a referenced group everywhere in place, then remove",
    "note": "trusted: lib/refsem.py inclusion algebra and first-match semantics; ACLs <= 12 lines, k<=3; native spelling only; packet sampling is a cross-check, the deciding step is the witness",
}
