"""C02 IOS <-> NX-OS conversion changes spelling only, never the ACL's meaning (translation validation)."""
from __future__ import annotations

from hypothesis import strategies as st

from lib import acehelp as A
from lib import gen as G
from lib import refsem as R
from lib.harness import Invalid, Sub, Verdict
from checks.c13 import member_text
from checks.c19 import expected_run

PROPERTY = "C02"
LEVEL = "translation_validation"
RULE = ("programs: extended ACLs (0..10 remarks/ACEs over the C01 grammar, native or foreign spelling, flat or "
        "grouped by remark prefix, group addresses with attached member networks, multi-port eq included, "
        "multi-port neq excluded by construction) converted ios->nxos and nxos->ios under all switch settings; "
        "plus single Ace, Address, AddressAg and AddrGroup objects. Each translation is validated: the text "
        "after conversion is read by the independent reader under STRICT target-platform syntax and must give "
        "the same ordered rule list (multi-port eq -> adjacent single-port run with equal union), same remarks, "
        "name, sequence numbers and group members; there-and-back-and-there reaches the same text; the library "
        "re-reads the converted text unchanged. A refusal (ValueError) is accepted only where the target "
        "cannot express the input (single Ace with multi-port eq/neq to NX-OS, non-contiguous or 0/0 group "
        "member to IOS). Non-trivial: some entry's text must change; distinct by canonical program")
RULE += ". Directed classes added after the seeded-change rounds: entries appended to the built ACL before the conversion; ACL names near 100 characters / starting with a header keyword; nested address groups; 17-bit wildcards under a raised limit; platform aliases; versions"
ASSUMPTIONS = ["refsem strict platform syntax (DESIGN.md 2.3)", "name tables read from the library (pinned by C09)",
               "NX-OS member sequence numbers may be lost on the way to IOS"]


def _expected_flat(acl_case, target):
    out = []
    for it in acl_case["items"]:
        if it["t"] == "rem":
            out.append([("r", it.get("seq") or 0, it["text"])])
            continue
        rec = G.strip_members(it["rec"])
        run = expected_run(rec) if target == "nxos" and _multi_eq(rec) else [rec]
        out.append(sorted((("a", G.rec_rule(r).seq, G.rec_rule(r).meaning()) for r in run), key=repr))
    return out


def _multi_eq(rec):
    return any(rec.get(s) and rec[s]["op"] == "eq" and len(rec[s]["v"]) > 1 for s in ("sp", "dp"))


def _member_pairs(addr_obj, platform):
    out = []
    for item in addr_obj.items:
        tok = item.line.split()
        got, _ = R._read_addr(tok, 0, platform, True)  # pylint: disable=protected-access
        out.append(got.pair)
    return out


def judge_acl(case) -> Verdict:
    from cisco_acl import Acl

    acl_case, target = case["acl"], case["to"]
    G.validate_acl(acl_case)
    source = acl_case["platform"]
    if target not in ("ios", "nxos") or target == source:
        raise Invalid()
    for it in acl_case["items"]:
        if it["t"] == "ace":
            for s in ("sp", "dp"):
                p = it["rec"].get(s)
                if p and p["op"] == "neq" and len(p["v"]) > 1:
                    raise Invalid()
    v = Verdict()
    acl = A.build_acl(acl_case)
    flat0 = list(A.flat_items(acl.items))
    if len(flat0) != len(acl_case["items"]):
        raise Invalid()
    if case.get("spans") and not acl_case.get("group_by") and flat0:
        # explicit AceGroup items among plain entries (not created by group_by)
        from checks.c10 import _wrap_groups

        _wrap_groups(acl, case["spans"])
        v.label("explicit-acegroups")
    if case.get("late"):
        # entries appended to the built (possibly grouped) ACL: they stay behind everything else
        extra = []
        for rec in case["late"]:
            G.validate_rec(rec, source)
            if G.rec_has_group(rec) or any(rec.get(s_) and rec[s_]["op"] == "neq" and len(rec[s_]["v"]) > 1 for s_ in ("sp", "dp")):
                raise Invalid()
            rec = dict(G.to_native(rec, source), seq=0)
            acl.append(A.build_ace(rec, source, version=acl_case.get("version", "0"), port_nr=bool(acl_case.get("port_nr")),
                                   protocol_nr=bool(acl_case.get("protocol_nr"))))  # created with the ACL's own switches
            extra.append({"t": "ace", "rec": rec})
        acl_case = dict(acl_case, items=list(acl_case["items"]) + extra)
        v.label("appended-after-construction")
    before = acl.line
    detail = {"from": source, "to": target, "before": before, "kwargs": {k: acl_case.get(k) for k in ("port_nr", "protocol_nr", "group_by")}}
    spelled = case.get("alias") or target
    if spelled not in G.PLATFORM_ALIASES[target]:
        raise Invalid()
    detail["platform_argument"] = spelled
    try:
        acl.platform = spelled  # any documented spelling of the platform name
    except (ValueError, TypeError) as ex:
        v.fail("acl:conversion-refused", dict(detail, error=f"{type(ex).__name__}: {ex}"[:300]))
        return v
    if acl.platform != target:
        v.fail("acl:platform-attribute", dict(detail, got=acl.platform))
    after = acl.line
    detail["after"] = after
    # (4) strict target syntax + (1)(2) same ordered rule list
    try:
        hdr, got = G.read_flat(after, target, acl_case.get("version", "0"), strict=True)
    except R.RefError as ex:
        v.fail("acl:output-not-valid-target-syntax", dict(detail, why=str(ex)[:200]))
        return v
    if hdr.name != acl_case["name"] or hdr.type != "extended":
        v.fail("acl:name-or-type-changed", detail)
    want_runs = _expected_flat(acl_case, target)
    pos = 0
    for run in want_runs:
        chunk = sorted(got[pos:pos + len(run)], key=repr)
        if chunk != run:
            kind = "remark" if run[0][0] == "r" else "entry"
            v.fail(f"acl:{kind}-meaning-changed", dict(detail, at=pos, got=[str(c)[:200] for c in chunk][:2]))
            return v
        pos += len(run)
    if pos != len(got):
        v.fail("acl:extra-entries", detail)
        return v
    # names valid on the target: strict read used the target's name table - an unknown name would have
    # been read as an option and changed the meaning above.
    # (3) group members keep their networks, in order
    flat1 = list(A.flat_items(acl.items))
    idx = 0
    for run, it in zip(want_runs, acl_case["items"]):
        objs = flat1[idx:idx + len(run)]
        idx += len(run)
        if it["t"] != "ace":
            continue
        for side, attr in (("src", "srcaddr"), ("dst", "dstaddr")):
            if it["rec"][side]["k"] == "group":
                want_m = list(G.addr_members(it["rec"][side]))
                for o in objs:
                    try:
                        got_m = _member_pairs(getattr(o, attr), target)
                    except R.RefError as ex:
                        v.fail("acl:member-not-valid-target-syntax", dict(detail, why=str(ex)[:200],
                                                                        members=[x.line for x in getattr(o, attr).items]))
                        return v
                    if got_m != want_m:
                        v.fail("acl:group-members-changed", dict(detail, line=o.line,
                                                                members=[x.line for x in getattr(o, attr).items]))
                        return v
    # (6) the library itself re-reads the converted text unchanged
    kw = G.acl_kwargs(acl_case)
    kw["platform"] = target
    again = Acl(after, **kw).line
    if again != after:
        v.fail("acl:converted-text-not-a-fixpoint", dict(detail, again=again))
    # (5) there and back and there
    acl.platform = source
    acl.platform = target
    if acl.line != after:
        v.fail("acl:there-back-there-differs", dict(detail, third=acl.line))
    changed = " ".join(before.split()) != " ".join(after.split())
    v.nt(changed)
    v.label(f"{source}->{target}", "grouped" if acl_case.get("group_by") else "flat", "compared")
    if any(it["t"] == "ace" and _multi_eq(it["rec"]) for it in acl_case["items"]) and target == "nxos":
        v.label("multi-eq-split")
    if any(it["t"] == "ace" and G.rec_has_group(it["rec"]) for it in acl_case["items"]):
        v.label("group-members")
    return v


@st.composite
def acl_case_st(draw, tier):
    native = draw(st.integers(0, 2)) > 0
    acl = draw(G.acl_st(max_items=10, kmax=3, groups=True, members=True, seqs=True, native=native, neq_multi=False,
                        multi=True))
    acl["port_nr"] = draw(st.booleans())
    acl["protocol_nr"] = draw(st.booleans())
    acl["version"] = draw(st.sampled_from(["0", "0", "0", "15.2(02)SY", "16.09.06"]))
    if draw(st.sampled_from(range(6))) == 0:
        # a raised limit and a wildcard that needs it (nothing below expands it into prefixes)
        aces = [it for it in acl["items"] if it["t"] == "ace"]
        if aces:
            acl["max_ncwb"] = 30
            wide = 0x03FFFE00 | (draw(st.integers(0, 255)) << 1)  # >= 17 non-contiguous bits, bit 0 not wild
            draw(st.sampled_from(aces))["rec"]["src"] = {"k": "wild", "b": 0x08000001, "w": wide & ~1}
    to = "nxos" if acl["platform"] == "ios" else "ios"
    case = {"acl": acl, "to": to, "alias": draw(G.alias_st(to))}
    if not acl["group_by"] and acl["items"] and draw(st.sampled_from([True, False, False])):
        n = len(acl["items"])
        case["spans"] = [[draw(st.integers(0, n)), draw(st.integers(1, 3))] for _ in range(draw(st.integers(1, 2)))]
    if draw(st.sampled_from(range(4))) == 1:
        case["late"] = [draw(G.ace_st(acl["platform"], kmax=2, groups=False, seq=False, noise=False, neq_multi=False))
                        for _ in range(draw(st.integers(1, 2)))]
    return case


# --------------------------------------------------------------------------------------- single objects
def judge_ace(case) -> Verdict:
    rec, source, target = case["rec"], case["from"], case["to"]
    G.validate_rec(rec, source)
    if target == source or target not in ("ios", "nxos"):
        raise Invalid()
    v = Verdict()
    ace = A.build_ace(rec, source, port_nr=bool(case.get("port_nr")), protocol_nr=bool(case.get("protocol_nr")))
    before = ace.line
    multi = any(rec.get(s) and rec[s]["op"] in ("eq", "neq") and len(rec[s]["v"]) > 1 for s in ("sp", "dp"))
    detail = {"from": source, "to": target, "before": before}
    try:
        ace.platform = case.get("alias") or target
    except ValueError as ex:
        if multi and target == "nxos":
            v.label("refused-multiport")
            return v
        v.fail("ace:conversion-refused", dict(detail, error=str(ex)[:300]))
        return v
    after = ace.line
    detail["after"] = after
    if multi and target == "nxos":
        v.fail("ace:multiport-converted-to-invalid-nxos", detail)
        return v
    try:
        got = R.read_ace(after, target, G.names_fn(target), G.lib_proto_native(target), strict=True)
    except R.RefError as ex:
        v.fail("ace:output-not-valid-target-syntax", dict(detail, why=str(ex)[:200]))
        return v
    want = G.rec_rule(G.strip_members(rec))
    if got.meaning() != want.meaning() or got.seq != want.seq:
        v.fail("ace:meaning-changed", detail)
    for side, attr in (("src", "srcaddr"), ("dst", "dstaddr")):
        if rec[side]["k"] == "group":
            try:
                got_m = _member_pairs(getattr(ace, attr), target)
            except R.RefError as ex:
                v.fail("ace:member-not-valid-target-syntax", dict(detail, why=str(ex)[:200]))
                return v
            if got_m != list(G.addr_members(rec[side])):
                v.fail("ace:group-members-changed", dict(detail, members=[x.line for x in getattr(ace, attr).items]))
    ace.platform = source
    ace.platform = target
    if ace.line != after:
        v.fail("ace:there-back-there-differs", dict(detail, third=ace.line))
    v.nt(before != after)
    v.label(f"ace:{source}->{target}", "compared")
    return v


@st.composite
def ace_case_st(draw, tier):
    source = draw(st.sampled_from(["ios", "nxos"]))
    rec = draw(G.ace_st(source, kmax=4, groups=True, members=True, noise=False, neq_multi=True))
    to = "nxos" if source == "ios" else "ios"
    return {"rec": rec, "from": source, "to": to, "alias": draw(G.alias_st(to)),
            "port_nr": draw(st.booleans()), "protocol_nr": draw(st.booleans())}


def judge_address(case) -> Verdict:
    from cisco_acl import Address

    a, source, target = case["a"], case["from"], case["to"]
    G.validate_addr(a)
    if target == source or target not in ("ios", "nxos") or source not in ("ios", "nxos"):
        raise Invalid()
    v = Verdict()
    ad = Address(G.render_addr(a, source), platform=source)
    if a["k"] == "group":
        ad.items = A.member_lines(a)
    nested = case.get("nested") or []
    if nested and a["k"] == "group":
        # members that are groups themselves, with their own member networks (IOS 'group-object')
        for sub in nested:
            if not isinstance(sub, dict) or not sub.get("n") or not sub.get("m"):
                raise Invalid()
            G.validate_addr({"k": "group", "n": sub["n"], "m": sub["m"]})
            inner = Address(G.render_addr({"k": "group", "n": sub["n"]}, source), platform=source)
            inner.items = A.member_lines({"k": "group", "n": sub["n"], "m": sub["m"]})
            ad.items.append(inner)
    before = ad.line
    ad.platform = case.get("alias") or target
    after = ad.line
    detail = {"from": source, "to": target, "before": before, "after": after}
    try:
        got, used = R._read_addr(after.split(), 0, target, True)  # pylint: disable=protected-access
        if used != len(after.split()):
            raise R.RefError("trailing tokens")
    except R.RefError as ex:
        v.fail("address:output-not-valid-target-syntax", dict(detail, why=str(ex)[:200]))
        return v
    want = G.addr_ref(G.strip_members({"src": a, "dst": a})["src"])
    if got.meaning() != want.meaning():
        v.fail("address:meaning-changed", detail)
    if a["k"] == "group" and nested:
        try:
            plain = [x for x in ad.items if x.type != "addrgroup"]
            inner = [x for x in ad.items if x.type == "addrgroup"]
            got_plain = [R._read_addr(x.line.split(), 0, target, True)[0].pair for x in plain]  # pylint: disable=protected-access
            got_inner = [(R._read_addr(x.line.split(), 0, target, True)[0].name, _member_pairs(x, target)) for x in inner]  # pylint: disable=protected-access
            want_inner = [(sub["n"], [R.mk_pair(b, w) for b, w in sub["m"]]) for sub in nested]
            if got_plain != list(G.addr_members(a)) or got_inner != want_inner:
                v.fail("address:nested-group-members-changed", dict(detail, members=[[x.line, [y.line for y in x.items]] for x in ad.items]))
        except R.RefError as ex:
            v.fail("address:member-not-valid-target-syntax", dict(detail, why=str(ex)[:200]))
        v.label("nested-groups")
    elif a["k"] == "group":
        try:
            if _member_pairs(ad, target) != list(G.addr_members(a)):
                v.fail("address:group-members-changed", dict(detail, members=[x.line for x in ad.items]))
        except R.RefError as ex:
            v.fail("address:member-not-valid-target-syntax", dict(detail, why=str(ex)[:200]))
    ad.platform = source
    ad.platform = target
    if ad.line != after:
        v.fail("address:there-back-there-differs", dict(detail, third=ad.line))
    v.nt(before != after)
    v.label(f"address:{G.label_addr(a)}", "compared")
    return v


@st.composite
def address_case_st(draw, tier):
    source = draw(st.sampled_from(["ios", "nxos"]))
    to = "nxos" if source == "ios" else "ios"
    case = {"a": draw(G.addr_st(kmax=6, groups=True)), "from": source, "to": to, "alias": draw(G.alias_st(to))}
    if case["a"]["k"] == "group" and draw(st.sampled_from(range(3))) == 1:
        case["nested"] = [{"n": f"SUB{i}", "m": draw(G.addr_st(kmax=2, groups=True, kinds=["group"]))["m"]}
                          for i in range(draw(st.integers(1, 2)))]
    return case


def judge_addrgroup(case) -> Verdict:
    from cisco_acl import AddrGroup, AddressAg

    source, target = case["from"], case["to"]
    members = [tuple(m) for m in case["members"]]
    if target == source or target not in ("ios", "nxos") or source not in ("ios", "nxos") or not members:
        raise Invalid()
    for b, w in members:
        if b & w or (source == "ios" and (not R.is_contiguous(w) or w == R.ALL1)):
            raise Invalid()
        if len(R.nc_bits(w)) > 6:
            raise Invalid()
    inexpressible = target == "ios" and any(not R.is_contiguous(w) or w == R.ALL1 for _, w in members)
    head = ("object-group network " if source == "ios" else "object-group ip address ") + "GRP-1"
    seqs = case.get("seqs") or []
    body = [member_text(m, source, i, seqs[i % len(seqs)] if seqs else 0) for i, m in enumerate(members)]
    v = Verdict()
    if case.get("single"):
        obj = AddressAg(body[0], platform=source)
        before = obj.line
        try:
            obj.platform = case.get("alias") or target
        except ValueError:
            if target == "ios" and (not R.is_contiguous(members[0][1]) or members[0][1] == R.ALL1):
                v.label("refused-inexpressible")
                return v
            v.fail("member:conversion-refused", {"before": before, "to": target})
            return v
        after = obj.line
        try:
            _, got = R.read_member(after, target, strict=True)
        except R.RefError as ex:
            v.fail("member:output-not-valid-target-syntax", {"before": before, "after": after, "why": str(ex)[:200]})
            return v
        if got != members[0]:
            v.fail("member:meaning-changed", {"before": before, "after": after})
        obj.platform = source
        obj.platform = target
        if obj.line != after:
            v.fail("member:there-back-there-differs", {"before": before, "after": after, "third": obj.line})
        v.nt(before != after)
        v.label("member", "compared")
        return v
    grp = AddrGroup(head + "\n" + "\n".join(" " + s for s in body), platform=source, indent=case.get("indent", "  "))
    if len(grp.items) != len(members):
        raise Invalid()
    before = grp.line
    detail = {"from": source, "to": target, "before": before}
    try:
        grp.platform = case.get("alias") or target
    except ValueError as ex:
        if inexpressible and case.get("retry"):
            # the caller removes the members the target cannot express and converts again
            keep = [i for i, (_, w) in enumerate(members) if R.is_contiguous(w) and w != R.ALL1]
            if not keep or len(grp.items) != len(members):
                v.label("refused-inexpressible")
                return v
            for i in reversed(range(len(members))):
                if i not in keep:
                    grp.items.pop(i)
            try:
                grp.platform = case.get("alias") or target
            except ValueError as ex2:
                v.fail("addrgroup:second-conversion-refused-after-the-offending-members-were-removed",
                       dict(detail, error=str(ex2)[:200]))
                return v
            after = grp.line
            detail["after"] = after
            try:
                name, got = R.read_addrgroup(after, target, strict=True)
            except R.RefError as ex3:
                v.fail("addrgroup:retry:output-not-valid-target-syntax", dict(detail, why=str(ex3)[:200]))
                return v
            if name != "GRP-1" or [g[1] for g in got] != [members[i] for i in keep]:
                v.fail("addrgroup:retry:members-or-name-changed", detail)
            v.nt(True)
            v.label("refused-then-repaired-and-converted", "compared")
            return v
        if inexpressible:
            v.label("refused-inexpressible")
            return v
        v.fail("addrgroup:conversion-refused", dict(detail, error=str(ex)[:200]))
        return v
    after = grp.line
    detail["after"] = after
    if inexpressible:
        v.fail("addrgroup:inexpressible-member-converted", detail)
        return v
    try:
        name, got = R.read_addrgroup(after, target, strict=True)
    except R.RefError as ex:
        v.fail("addrgroup:output-not-valid-target-syntax", dict(detail, why=str(ex)[:200]))
        return v
    if name != "GRP-1" or [g[1] for g in got] != members:
        v.fail("addrgroup:members-or-name-changed", detail)
    again = AddrGroup(after, platform=target, indent=case.get("indent", "  ")).line
    if again != after:
        v.fail("addrgroup:converted-text-not-a-fixpoint", dict(detail, again=again))
    grp.platform = source
    grp.platform = target
    if grp.line != after:
        v.fail("addrgroup:there-back-there-differs", dict(detail, third=grp.line))
    v.nt(True)
    v.label(f"addrgroup:{source}->{target}", "compared")
    return v


@st.composite
def addrgroup_case_st(draw, tier):
    source = draw(st.sampled_from(["ios", "nxos"]))
    members = []
    for _ in range(draw(st.integers(1, 6))):
        if source == "nxos" and draw(st.integers(0, 9)) == 0:
            w = draw(G.wildmask_st(3, nc_only=True))
        elif source == "nxos" and draw(st.integers(0, 19)) == 0:
            w = R.ALL1
        else:
            plen = draw(st.integers(1, 32))
            w = (1 << (32 - plen)) - 1
        members.append([draw(G.base_st()) & ~w & R.ALL1, w])
    to_ = "nxos" if source == "ios" else "ios"
    return {"from": source, "to": to_, "alias": draw(G.alias_st(to_)), "members": members,
            "seqs": draw(st.lists(st.integers(0, 90), max_size=3)) if source == "nxos" else [],
            "single": draw(st.integers(0, 3)) == 0, "indent": draw(st.sampled_from([" ", "  ", "   "])),
            "retry": draw(st.booleans())}


SUBS = [
    Sub("acl", judge_acl, strategy=acl_case_st, quick=1500, thorough=60000, shards_thorough=48),
    Sub("ace", judge_ace, strategy=ace_case_st, quick=2000, thorough=60000),
    Sub("address", judge_address, strategy=address_case_st, quick=1500, thorough=30000),
    Sub("addrgroup", judge_addrgroup, strategy=addrgroup_case_st, quick=1000, thorough=30000),
]

# coverage-guided twins (fuzz/fuzz_hyp.py): atheris mutates the bytes Hypothesis decodes into cases of the same strategy
SUBS += [__import__("lib.harness", fromlist=["x"]).cov_sub('C02', s_) for s_ in list(SUBS) if s_.name in ('ace',)]

MANIFEST = {
    "technique": "translation validation by property-based testing: each generated ACL / ACE / address / address group is converted by the library and the converted text is validated against the source program with an independent strict reader of the target platform's syntax",
    "text": "translation validation: every generated program's conversion was validated (same ordered rule list by meaning with eq-splits as equal-union runs, remarks / name / numbers / group members kept, strict target syntax, there-back-there text equality, library re-read fixpoint); thousands (quick) / 180 000 (thorough) programs in both directions under all switch settings",
    "note": "trusted: lib/refsem.py strict syntax + meaning; name tables from the library (pinned by C09); multi-port neq is excluded here and owned by C19; refusals accepted only where the target cannot express the input",
}
MANIFEST["engine"] = MANIFEST.get("engine", "hypothesis") + " + atheris (coverage-guided twins of the Hypothesis sub-checks, fuzz/fuzz_hyp.py: 2 jobs x 8 s quick, 8 jobs x 200 s thorough)"
MANIFEST["technique"] += "; plus coverage-guided fuzzing of the same strategies (atheris/libFuzzer mutates the byte stream Hypothesis decodes into cases, the same oracle runs inside the target, findings are re-judged outside it)"
