"""C16 copy()/data() rebuild an equal, independent object; ids and notes are stable."""
from __future__ import annotations

from hypothesis import strategies as st

from lib import acehelp as A
from lib import gen as G
from lib import refsem as R
from lib.harness import Invalid, Sub, Verdict
from checks import c08
from checks.c13 import member_text

PROPERTY = "C16"
LEVEL = "exploration"
RULE = ("cases: an object of every exported class (Acl with group_by / members / interfaces, AceGroup, Ace, Remark, "
        "Address with members, AddressAg, AddrGroup, Port, Protocol, Option, Wildcard) with a fresh mutable note, "
        "rebuilt by copy() or Class(**data()), followed by a generated mutation of the copy OR of the source "
        "(list methods on items / input / output, setters on nested objects, member list edits, platform and "
        "switch changes); and chains of in-place transformations for the identity clause. Oracle: equal text / "
        "data / ==; object-graph walk finds no shared mutable object except the note; the untouched side's "
        "snapshot (text + data) is unchanged by the mutation; uuid and note of the container, of every Ace / "
        "Remark / member item not replaced by a split survive the transformations. Non-trivial: the mutation "
        "changed the mutated side, or >= 2 transformations were chained; distinct by canonical case")
RULE += ". Directed classes added after the seeded-change rounds: remark text through text= / the text setter; numbered NX-OS groups reordered before the copy; explicit blocks with their own prefix; resequence refused for overflow and 'asa' as a target in the identity chains"
ASSUMPTIONS = ["Wildcard has no __eq__ and is compared by text + data only",
               "AceGroup identity is not claimed across operations that regroup (ACL with group_by)",
               "sub-objects of an Ace (addresses, ports, protocol, option) are rebuilt by design and not claimed"]

CLASSES = ("acl", "acegroup", "ace", "remark", "address", "member", "addrgroup", "port", "protocol", "option",
           "wildcard")


class Note(list):
    """A mutable user note."""


def build(spec):
    import cisco_acl as C

    kind = spec["kind"]
    note = Note(["note", kind])
    platform = spec.get("platform", "ios")
    if platform not in ("ios", "nxos"):
        raise Invalid()
    if kind in ("acl", "acegroup"):
        acl_case = spec["acl"]
        G.validate_acl(acl_case)
        acl = A.build_acl(acl_case, note=note, input=list(spec.get("input") or []), output=list(spec.get("output") or []))
        for i, o in enumerate(A.flat_items(acl.items)):
            o.note = Note(["item", i])
        if spec.get("retext") and not acl_case.get("group_by"):
            # the text of one remark assigned through its text attribute after the ACL was built
            rems = [x for x in A.flat_items(acl.items) if isinstance(x, C.Remark)]
            txt = spec["retext"][1]
            if rems and isinstance(txt, str) and txt and txt == " ".join(txt.split()):
                rems[spec["retext"][0] % len(rems)].text = txt
        if kind == "acl" and spec.get("set_indent") is not None:
            if spec["set_indent"] not in ("", " ", "   ", "\t"):
                raise Invalid()
            acl.indent = spec["set_indent"]
        if kind == "acl":
            if spec.get("block") and not acl_case.get("group_by") and len(acl.items) >= 1:
                # an explicit block with its OWN prefix / name among the plain entries of an ungrouped ACL
                lo = spec["block"][0] % len(acl.items)
                chunk = acl.items[lo:lo + max(0, spec["block"][1])]  # length 0: an empty placeholder block
                blk = C.AceGroup(items=list(chunk), platform=acl.platform, group_by="== ", name="== BLOCK",
                                 note=Note(["block"]))
                acl.items[lo:lo + len(chunk)] = [blk]
            return acl
        if not acl.items:
            raise Invalid()
        grp = C.AceGroup(items=list(A.flat_items(acl.items)), platform=acl.platform, note=note)
        return grp
    if spec.get("max_ncwb") is not None and spec["max_ncwb"] not in (8, 16, 20, 30):
        raise Invalid()
    if kind == "ace":
        G.validate_rec(spec["rec"], platform)
        if not all(G.addr_is_native(spec["rec"][s], platform) for s in ("src", "dst")):
            raise Invalid()  # foreign spellings converge in two steps (C06); C16 is stated over the native domain
        ace = A.build_ace(spec["rec"], platform, note=note, **({"max_ncwb": spec["max_ncwb"]} if spec.get("max_ncwb") else {}))
        for ad in (ace.srcaddr, ace.dstaddr):
            for j, m in enumerate(ad.items):
                m.note = Note(["member", j])
        return ace
    if kind == "remark":
        text = spec["text"]
        if not text or text != " ".join(text.split()):
            raise Invalid()
        if spec.get("ctor") == "text-keyword":
            rem = C.Remark(text=text, platform=platform, note=note)
            rem.sequence = spec.get("seq") or 0
            return rem
        if spec.get("ctor") == "text-setter":
            rem = C.Remark(f"{spec.get('seq') or ''} remark x".strip(), platform=platform, note=note)
            rem.text = text
            return rem
        return C.Remark(f"{spec.get('seq') or ''} remark {text}".strip(), platform=platform, note=note)
    if kind == "address":
        G.validate_addr(spec["a"])
        if not G.addr_is_native(spec["a"], platform):
            raise Invalid()
        ad = C.Address(G.render_addr(spec["a"], platform), platform=platform, note=note,
                       **({"max_ncwb": spec["max_ncwb"]} if spec.get("max_ncwb") else {}))
        if spec["a"]["k"] == "group":
            ad.items = A.member_lines(spec["a"])
        return ad
    if kind in ("member", "addrgroup"):
        members = [tuple(m) for m in spec["members"]]
        if not members:
            raise Invalid()
        for b, w in members:
            if b & w or not R.is_contiguous(w) or (platform == "ios" and w == R.ALL1):
                raise Invalid()
        if kind == "member":
            return C.AddressAg(member_text(members[0], platform, 0, spec.get("seq", 0) if platform == "nxos" else 0),
                               platform=platform, note=note)
        head = ("object-group network " if platform == "ios" else "object-group ip address ") + "G"
        seqs = spec.get("seqs") or [0]
        body = [member_text(m, platform, i, seqs[i % len(seqs)] if platform == "nxos" else 0) for i, m in enumerate(members)]
        extra = {"max_ncwb": spec["max_ncwb"]} if spec.get("max_ncwb") is not None else {}
        if spec.get("wide") and platform == "nxos":
            body.append("10.0.0.0 0.255.255.128")  # 17 non-contiguous bits: needs max_ncwb > 16
            extra["max_ncwb"] = 30
        if extra:
            # members created through items= inherit the group's limit (the line setter uses the default)
            grp = C.AddrGroup(name="G", items=list(body), platform=platform, note=note, **extra)
        else:
            grp = C.AddrGroup(head + "\n" + "\n".join(" " + s for s in body), platform=platform, note=note)
        for j, m in enumerate(grp.items):
            m.note = Note(["member", j])
        # reordered in place before it is copied (numbered members no longer in the order of their numbers)
        if spec.get("set_indent") is not None:
            if spec["set_indent"] not in ("", " ", "   ", "\t"):
                raise Invalid()
            grp.indent = spec["set_indent"]  # assigned after construction
        pre = spec.get("pre")
        if pre == "reverse":
            grp.items.reverse()
        elif pre == "sort":
            grp.sort()
        elif pre == "rotate" and len(grp.items) > 1:
            grp.items.insert(0, grp.items.pop())
        elif pre is not None:
            raise Invalid()
        return grp
    if kind == "port":
        c08.validate_case(spec["port"])
        p = spec["port"]
        line, _ = c08.build(p)
        return C.Port(line, platform=p["platform"], protocol=p["proto"], port_nr=bool(p.get("port_nr")), note=note)
    if kind == "protocol":
        return C.Protocol(str(spec["nr"] % 256), platform=platform, protocol_nr=bool(spec.get("protocol_nr")), note=note)
    if kind == "option":
        return C.Option(" ".join(spec["toks"]), platform=platform, note=note)
    if kind == "wildcard":
        if len(R.nc_bits(spec["w"])) > 8:
            raise Invalid()
        return C.Wildcard(f"{R.int2ip(spec['b'])} {R.int2ip(spec['w'])}", platform=platform, note=note)
    raise Invalid()


def _has_empty_block(o) -> bool:
    """Resequencing is only defined for non-empty groups (C10's quantifier); an empty placeholder block is
    kept out of that operation."""
    import cisco_acl as C

    return any(isinstance(x, C.AceGroup) and not x.items for x in getattr(o, "items", []) or [])


def snap(o):
    return (o.line, repr(o.data()))


def walk(root):
    """ids of every mutable object reachable from root, notes excluded."""
    from ipaddress import IPv4Address, IPv4Network

    seen, out, stack = set(), {}, [root]
    while stack:
        x = stack.pop()
        if id(x) in seen:
            continue
        seen.add(id(x))
        if isinstance(x, (str, int, float, bool, bytes, type(None), IPv4Network, IPv4Address, Note)):
            continue
        mod = type(x).__module__
        if mod.startswith("netports") or mod.startswith("packaging"):
            continue
        if isinstance(x, (list, set, dict)) or mod.startswith("cisco_acl"):
            out[id(x)] = type(x).__name__
        if isinstance(x, dict):
            stack.extend(x.values())
        elif isinstance(x, (list, tuple, set, frozenset)):
            stack.extend(x)
        elif hasattr(x, "__dict__"):
            for k, val in vars(x).items():
                if k in ("note", "_note"):
                    continue
                stack.append(val)
    return out


def mutate(o, mut, v: Verdict):
    """Apply one generated mutation; returns a label or None when not applicable."""
    import cisco_acl as C

    name = mut[0]
    arg = mut[1] if len(mut) > 1 else 0
    items = getattr(o, "items", None)
    if name == "items-append" and isinstance(o, (C.Acl, C.AceGroup)):
        o.items.append(C.Ace("permit ip any any", platform=o.platform))
    elif name == "items-pop" and isinstance(items, list) and items:
        items.pop(arg % len(items))
    elif name == "items-reverse" and isinstance(items, list) and len(items) > 1:
        items.reverse()
    elif name == "input-append" and isinstance(o, C.Acl):
        o.input.append("interface X")
        o.output.append("interface Y")
    elif name == "item-sequence" and isinstance(items, list) and items and hasattr(items[0], "sequence"):
        it = items[arg % len(items)]
        it.sequence = it.sequence + 7
    elif name == "item-note" and isinstance(items, list) and items and hasattr(items[0], "note"):
        items[arg % len(items)].note = "changed"
    elif name == "nested-line" and isinstance(o, (C.Acl, C.AceGroup)):
        aces = [x for x in A.flat_items(o.items) if isinstance(x, C.Ace)]
        if not aces:
            return None
        aces[arg % len(aces)].line = "deny icmp host 1.2.3.4 any"
    elif name == "nested-addr-line" and isinstance(o, (C.Acl, C.AceGroup, C.Ace)):
        aces = [o] if isinstance(o, C.Ace) else [x for x in A.flat_items(o.items) if isinstance(x, C.Ace)]
        if not aces:
            return None
        aces[arg % len(aces)].dstaddr.line = "host 9.9.9.9"
    elif name == "nested-port" and isinstance(o, (C.Acl, C.AceGroup, C.Ace)):
        aces = [o] if isinstance(o, C.Ace) else [x for x in A.flat_items(o.items) if isinstance(x, C.Ace)]
        aces = [x for x in aces if x.dstport.line and x.dstport.operator == "eq"]
        if not aces:
            return None
        aces[arg % len(aces)].dstport.items = [4444]
    elif name == "member-edit":
        aces = [o] if isinstance(o, C.Ace) else ([x for x in A.flat_items(o.items) if isinstance(x, C.Ace)]
                                                 if isinstance(o, (C.Acl, C.AceGroup)) else [])
        addrs = [ad for x in aces for ad in (x.srcaddr, x.dstaddr) if ad.items]
        if isinstance(o, C.Address) and o.items:
            addrs = [o]
        if isinstance(o, C.AddrGroup) and o.items:
            o.items[arg % len(o.items)].line = "host 7.7.7.7"
            return name
        if not addrs:
            return None
        ad = addrs[arg % len(addrs)]
        if arg % 2:
            ad.items.pop()
        else:
            ad.items[0].line = "host 7.7.7.7"
    elif name == "platform":
        try:
            o.platform = "nxos" if o.platform == "ios" else "ios"
        except ValueError:
            return None
    elif name == "port_nr" and hasattr(o, "port_nr"):
        o.port_nr = not o.port_nr
    elif name == "protocol_nr" and hasattr(o, "protocol_nr"):
        o.protocol_nr = not o.protocol_nr
    elif name == "resequence" and hasattr(o, "resequence") and getattr(o, "items", None) and not _has_empty_block(o):
        o.resequence(5, 3)
    elif name == "line":
        cls = type(o).__name__
        new = {"Remark": "remark changed", "Option": "syn log", "Protocol": "89", "Wildcard": "1.1.1.0 0.0.0.255",
               "Address": "host 8.8.8.8", "AddressAg": "host 8.8.8.8", "Ace": "deny udp any any eq 53"}.get(cls)
        if cls == "Port":
            if not o.operator:
                return None
            new = "eq 4443" if o.protocol else None
        if new is None:
            return None
        o.line = new
    else:
        return None
    return name


MUTS = ["items-append", "items-pop", "items-reverse", "input-append", "item-sequence", "item-note", "nested-line",
        "nested-addr-line", "nested-port", "member-edit", "platform", "port_nr", "protocol_nr", "resequence", "line"]


def judge_copy(case) -> Verdict:
    from cisco_acl import Wildcard

    spec = case["obj"]
    if spec.get("kind") not in CLASSES:
        raise Invalid()
    o = build(spec)
    v = Verdict()
    via = case.get("via", "copy")
    c = o.copy() if via == "copy" else type(o)(**o.data())
    kind = spec["kind"]
    detail = {"kind": kind, "via": via, "line": o.line[:600]}
    if c.line != o.line:
        v.fail(f"equal:{kind}:text-differs", dict(detail, copy=c.line[:600]))
        return v
    if c.data() != o.data():
        d1, d2 = o.data(), c.data()
        v.fail(f"equal:{kind}:data-differs", dict(detail, keys=[k for k in d1 if d1[k] != d2.get(k)]))
        return v
    if not isinstance(o, Wildcard) and not c == o:
        v.fail(f"equal:{kind}:eq-false", detail)
    # members included
    if kind in ("ace", "acl", "acegroup", "address"):
        def members(x):
            from cisco_acl import Ace, Address
            if isinstance(x, Address):
                return [m.line for m in x.items]
            aces = [x] if isinstance(x, Ace) else [y for y in A.flat_items(x.items) if isinstance(y, Ace)]
            return [[m.line for m in ad.items] for y in aces for ad in (y.srcaddr, y.dstaddr)]
        if members(c) != members(o):
            v.fail(f"equal:{kind}:group-members-lost", dict(detail, src=members(o), copy=members(c)))
    shared = set(walk(o)) & set(walk(c))
    if shared:
        names = sorted({walk(o)[i] for i in shared})
        v.fail(f"alias:{kind}:shared-mutable-state:" + "+".join(names)[:60], dict(detail, shared=names))
        return v
    # behavioural independence
    mut = case.get("mut") or ["none"]
    side = case.get("side", "copy")
    target, other = (c, o) if side == "copy" else (o, c)
    before_other, before_target = snap(other), snap(target)
    applied = mutate(target, mut, v)
    if applied:
        if snap(other) != before_other:
            v.fail(f"alias:{kind}:{applied}:other-side-changed", dict(detail, side=side, other_before=before_other[0][:400],
                                                                     other_after=other.line[:400]))
        v.nt(snap(target) != before_target)
    v.label(kind, via, f"mut={applied or 'n/a'}", f"side={side}")
    return v


# --------------------------------------------------------------------------------------- identity
def judge_identity(case) -> Verdict:
    import cisco_acl as C

    spec = case["obj"]
    if spec.get("kind") not in CLASSES:
        raise Invalid()
    o = build(spec)
    v = Verdict()
    kind = spec["kind"]

    def ids(x):
        out = {"self": (x.uuid, id(x.note))}
        if isinstance(x, (C.Acl, C.AceGroup)):
            if not getattr(x, "group_by", ""):
                # explicit blocks (blocks derived from remarks by group_by are recomputed by design: not claimed)
                out["blocks"] = sorted((y.uuid, id(y.note)) for y in x.items if isinstance(y, C.AceGroup))
            out["items"] = sorted((y.uuid, id(y.note)) for y in A.flat_items(x.items))
            out["members"] = sorted((m.uuid, id(m.note)) for y in A.flat_items(x.items) if isinstance(y, C.Ace)
                                    for ad in (y.srcaddr, y.dstaddr) for m in ad.items)
        elif isinstance(x, C.Ace):
            out["members"] = [(m.uuid, id(m.note)) for ad in (x.srcaddr, x.dstaddr) for m in ad.items]
        elif isinstance(x, (C.AddrGroup, C.Address)):
            out["members"] = [(m.uuid, id(m.note)) for m in x.items]
        return out

    multi = False
    if isinstance(o, (C.Acl, C.AceGroup)):
        multi = any(isinstance(y, C.Ace) and len(y.ungroup_ports()) > 1 for y in A.flat_items(o.items))
    elif isinstance(o, C.Ace):
        multi = len(o.ungroup_ports()) > 1
    want = ids(o)
    done = []
    for op in case["ops"]:
        name = op[0]
        try:
            if name == "platform":
                if multi and o.platform == "ios":
                    continue  # entries replaced by a split are outside the clause
                o.platform = "nxos" if o.platform == "ios" else "ios"
            elif name == "type" and hasattr(o, "type") and isinstance(getattr(o, "type"), str) and kind in ("acl", "acegroup", "ace", "remark"):
                o.type = o.type
            elif name == "port_nr" and hasattr(o, "port_nr"):
                o.port_nr = not o.port_nr
            elif name == "protocol_nr" and hasattr(o, "protocol_nr"):
                o.protocol_nr = not o.protocol_nr
            elif name == "resequence" and hasattr(o, "resequence") and getattr(o, "items", None) and not _has_empty_block(o):
                o.resequence(op[1] % 50 + 1, op[2] % 9 + 1)
            elif name == "resequence-overflow" and hasattr(o, "resequence") and len(getattr(o, "items", None) or []) >= 2 \
                    and not _has_empty_block(o):
                # arguments that are legal one by one but run past 4294967295: refused, and nothing is replaced
                try:
                    o.resequence(4294967295 - op[1] % 3, op[2] % 9 + 1)
                    continue
                except ValueError:
                    pass
            elif name == "platform-asa" and hasattr(o, "platform") and kind in ("acl", "acegroup", "ace", "remark"):
                if multi:
                    continue
                o.platform = "asa" if o.platform != "asa" else spec.get("platform", "ios")
            elif name == "sort" and isinstance(o, (C.Acl, C.AceGroup)):
                o.sort()
            elif name == "reverse" and isinstance(o, (C.Acl, C.AceGroup)):
                o.reverse()
            elif name == "group" and isinstance(o, C.Acl):
                o.group(spec["acl"].get("prefix") or "= ")
            elif name == "ungroup" and isinstance(o, C.Acl):
                o.ungroup()
            else:
                continue
        except ValueError as ex:
            if name in ("platform", "platform-asa"):
                continue
            raise
        done.append(name)
        got = ids(o)
        if name in ("group", "ungroup"):
            want.pop("blocks", None)  # blocks are made / dissolved by these two: only the entries are claimed
        if any(k in got and got[k] != want[k] for k in want):
            part = next(k for k in want if k in got and got[k] != want[k])
            v.fail(f"identity:{kind}:{name}:{part}-uuid-or-note-changed", {"kind": kind, "ops": done, "line": o.line[:500]})
            return v
    v.nt(len(done) >= 2)
    v.label(kind, f"ops={min(len(done), 6)}")
    return v


# --------------------------------------------------------------------------------------- generators
@st.composite
def obj_st(draw, small_acl=False):
    kind = draw(st.sampled_from(["acl", "acl", "acl", "acegroup", "ace", "ace", "remark", "address", "member",
                                 "addrgroup", "port", "protocol", "option", "wildcard"]))
    platform = draw(st.sampled_from(["ios", "nxos"]))
    spec = {"kind": kind, "platform": platform}
    if kind in ("acl", "addrgroup") and draw(st.sampled_from(range(4))) == 1:
        spec["set_indent"] = draw(st.sampled_from(["", "", " ", "   ", "\t"]))
    if kind in ("ace", "address", "addrgroup") and draw(st.sampled_from([True, False])):
        spec["max_ncwb"] = draw(st.sampled_from([8, 20, 30]))
    if kind in ("acl", "acegroup"):
        spec["acl"] = draw(G.acl_st(platform=platform, min_items=1, max_items=6, kmax=2, groups=True, members=True,
                                    seqs=True, neq_multi=False))
        if kind == "acegroup":
            spec["acl"]["group_by"] = ""
        if kind == "acl" and draw(st.sampled_from([True, False, False])):
            spec["block"] = [draw(st.integers(0, 5)), draw(st.sampled_from([0, 1, 1, 2, 3]))]
        if draw(st.sampled_from(range(4))) == 0:
            spec["retext"] = [draw(st.integers(0, 5)), draw(G.remark_text_st())]
        spec["input"] = draw(st.lists(st.sampled_from(["interface Eth1", "interface Eth2"]), max_size=2, unique=True))
        spec["output"] = draw(st.lists(st.sampled_from(["interface Eth3"]), max_size=1))
    elif kind == "ace":
        spec["rec"] = G.to_native(draw(G.ace_st(platform, kmax=3, groups=True, members=True, noise=False,
                                                neq_multi=False)), platform)
    elif kind == "remark":
        spec["text"] = draw(G.remark_text_st())
        spec["seq"] = draw(st.sampled_from([0, 10]))
        spec["ctor"] = draw(st.sampled_from(["line", "line", "text-keyword", "text-setter"]))
    elif kind == "address":
        a = draw(G.addr_st(kmax=3, groups=True))
        spec["a"] = a if a["k"] == "group" else G.native_addr(G.addr_pair(a), platform)
    elif kind in ("member", "addrgroup"):
        spec["wide"] = draw(st.sampled_from([True, False, False]))
        mem = []
        for _ in range(draw(st.integers(1, 4))):
            w = (1 << (32 - draw(st.integers(8, 32)))) - 1
            mem.append([draw(G.base_st()) & ~w & R.ALL1, w])
        spec["members"] = mem
        spec["seq"] = draw(st.sampled_from([0, 10]))
        if kind == "addrgroup":
            spec["seqs"] = draw(st.sampled_from([[0], [0], [10, 20, 30, 40], [40, 10, 30, 20], [10, 0]]))
            spec["pre"] = draw(st.sampled_from([None, None, "reverse", "sort", "rotate"]))
    elif kind == "port":
        p = draw(c08.obj_case())
        p.pop("slow", None)
        if p["op"] in ("neq", "lt", "gt") or (p["op"] == "range" and abs(p["v"][0] - p["v"][1]) > 500):
            p = {"op": "eq", "v": [80, 443][: 2 if p["platform"] == "ios" else 1], "platform": p["platform"],
                 "proto": p["proto"], "nm": [], "port_nr": p["port_nr"]}
        p["v"] = sorted(set(p["v"]))
        spec["port"] = p
    elif kind == "protocol":
        spec["nr"] = draw(st.integers(0, 255))
        spec["protocol_nr"] = draw(st.booleans())
    elif kind == "option":
        spec["toks"] = draw(st.lists(st.sampled_from(["ack", "syn", "log", "established", "fragments"]), max_size=3,
                                     unique=True))
    else:
        spec["b"] = draw(G.base_st())
        spec["w"] = draw(G.wildmask_st(4))
    return spec


CONTAINER = ["items-append", "items-pop", "items-reverse", "item-sequence", "item-note", "nested-line",
             "nested-addr-line", "nested-port", "member-edit", "platform", "port_nr", "protocol_nr", "resequence"]
APPLICABLE = {
    "acl": CONTAINER + ["input-append", "input-append"], "acegroup": CONTAINER,
    "ace": ["nested-addr-line", "nested-port", "member-edit", "member-edit", "platform", "port_nr", "protocol_nr", "line"],
    "remark": ["line", "platform"], "address": ["line", "member-edit", "member-edit", "platform", "items-pop"],
    "member": ["line", "platform"],
    "addrgroup": ["items-pop", "items-reverse", "item-sequence", "item-note", "member-edit", "platform", "resequence"],
    "port": ["line", "platform", "items-pop"], "protocol": ["line", "platform"], "option": ["line", "platform"],
    "wildcard": ["line", "platform"],
}


@st.composite
def copy_case_st(draw, tier):
    obj = draw(obj_st())
    return {"obj": obj, "via": draw(st.sampled_from(["copy", "data"])),
            "side": draw(st.sampled_from(["copy", "source"])),
            "mut": [draw(st.sampled_from(APPLICABLE[obj["kind"]])), draw(st.integers(0, 9))]}


@st.composite
def identity_case_st(draw, tier):
    ops = []
    for _ in range(draw(st.integers(1, 6))):
        name = draw(st.sampled_from(["platform", "platform", "type", "port_nr", "protocol_nr", "resequence", "sort",
                                     "reverse", "group", "ungroup", "resequence-overflow", "platform-asa"]))
        ops.append([name, draw(st.integers(0, 99)), draw(st.integers(0, 99))])
    return {"obj": draw(obj_st()), "ops": ops}


SUBS = [
    Sub("copy", judge_copy, strategy=copy_case_st, quick=2500, thorough=80000, shards_thorough=48),
    Sub("identity", judge_identity, strategy=identity_case_st, quick=1500, thorough=40000),
]

MANIFEST = {
    "technique": "property-based testing: generated objects of every class are copied / rebuilt from data(), compared, walked as object graphs for shared mutable state and mutated on one side with a snapshot oracle on the other; transformation chains checked against recorded uuid/note",
    "text": "exploration: equality (text, data, ==), absence of shared mutable state (graph walk + behavioural snapshot under 15 kinds of generated mutations on either side) and uuid/note stability under generated chains of in-place transformations, on thousands (quick) / 120 000 (thorough) generated objects across all exported classes",
    "note": "trusted: the graph walk over __dict__/list/dict/set; Wildcard compared by text+data; AceGroup identity across regrouping and Ace sub-object identity are not claimed (rebuilt by design)",
}
