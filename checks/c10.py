"""C10 Resequencing numbers every line start, start+step, ... and changes nothing else."""
from __future__ import annotations

import re

from hypothesis import strategies as st

from lib import gen as G
from lib import refsem as R
from lib.harness import Invalid, Sub, Verdict
from checks.c13 import member_text

PROPERTY = "C10"
LEVEL = "exploration"
RULE = ("cases: ACL programs with any previous numbering - flat, grouped by remark prefix (blocks incl. the "
        "unnamed leading block and heading-only blocks) or with explicit non-empty AceGroup items - plus "
        "stand-alone AceGroups and IOS / NX-OS address groups; integers start, step from the boundary set "
        "{0,1,2,10,2^32-2,2^32-1,2^32,-1} and uniform draws placed so that start+(n-1)*step straddles 2^32-1. "
        "Oracle: arithmetic model (error iff start outside 0..2^32-1, or start>0 and step<1, or last > 2^32-1; "
        "else numbers in rendered order are start+i*step, return == last, text minus numbers unchanged, same "
        "item objects, no number > 2^32-1). Non-trivial: n>=2 and (a group is present or a boundary argument "
        "is used); distinct by canonical case")
RULE += ". Directed classes added after the seeded-change rounds: long remark texts; entries and repeated headings appended to the built ACL; IOS standard lists; whole Acl objects as items; an earlier (possibly refused) call on the same object"
ASSUMPTIONS = ["after an error return nothing is asserted about the numbers", "groups are non-empty (quantifier)"]

MAX = R.SEQ_MAX
BOUNDARY = [0, 1, 2, 10, MAX - 1, MAX, MAX + 1, -1]


def _flat(items):
    from cisco_acl import AceGroup

    for it in items:
        if isinstance(it, AceGroup):
            yield from _flat(it.items)
        else:
            yield it


def _strip(line: str) -> str:
    return re.sub(r"^\s*\d+\s+(?=(permit|deny|remark)\b)", "", line.strip())


def _wrap_groups(acl, spans, as_acl: bool = False):
    """Replace slices of the flat item list by explicit AceGroup objects (or by whole Acl objects: another ACL
    merged into this one as one item)."""
    from cisco_acl import AceGroup, Acl

    items = list(acl.items)
    out, i = [], 0
    used = []
    for lo, ln in spans:
        lo = lo % (len(items) + 1)
        used.append((lo, max(1, ln)))
    used.sort()
    for lo, ln in used:
        if lo < i or lo >= len(items):
            continue
        out.extend(items[i:lo])
        chunk = items[lo:lo + ln]
        # an explicit block carries the same settings as the ACL it is put into
        kw = dict(items=chunk, platform=acl.platform, version=str(acl.version), port_nr=acl.port_nr,
                  protocol_nr=acl.protocol_nr, max_ncwb=acl.max_ncwb)
        out.append(Acl(name=f"SUB{len(out)}", **kw) if as_acl else AceGroup(**kw))
        i = lo + len(chunk)
    out.extend(items[i:])
    acl.items = out


def expected_error(start, step, n) -> bool:
    if not 0 <= start <= MAX:
        return True
    if start > 0 and step < 1:
        return True
    if start > 0 and n > 0 and start + (n - 1) * step > MAX:
        return True
    return False


def judge_acl(case) -> Verdict:
    from cisco_acl import AceGroup, Acl

    acl_case, start, step, target = case["acl"], case["start"], case["step"], case.get("target", "acl")
    G.validate_acl(acl_case)
    if not isinstance(start, int) or not isinstance(step, int) or isinstance(start, bool) or isinstance(step, bool):
        raise Invalid()
    platform = acl_case["platform"]
    text = G.render_acl(acl_case, noise=False)
    if case.get("std"):
        # an IOS standard list: entries of the form 'action source [log]'
        if platform != "ios" or target != "acl" or acl_case.get("group_by"):
            raise Invalid()
        body = []
        for it in acl_case["items"]:
            if it["t"] == "rem":
                body.append(G.item_line(it, platform, noise=False))
                continue
            rec = it["rec"]
            src = rec["src"]
            if src["k"] not in ("any", "host", "prefix", "wild") or not R.is_contiguous(src["w"]) or \
                    not G.addr_is_native(src, platform):
                raise Invalid()
            body.append(" ".join(x for x in [str(rec["seq"]) if rec.get("seq") else "", rec["action"],
                                             G.render_addr(src, platform), "log" if rec.get("logs") else ""] if x))
        text = f"ip access-list standard {acl_case['name']}\n" + "\n".join(acl_case.get("indent", " ") + ln for ln in body)
        obj = Acl(text, **G.acl_kwargs(acl_case))
        if obj.type != "standard":
            raise Invalid()
    elif target == "acl":
        obj = Acl(text, **G.acl_kwargs(acl_case))
        if case.get("spans") and not acl_case.get("group_by"):
            _wrap_groups(obj, case["spans"], as_acl=bool(case.get("spans_as_acl")))
    else:
        body = "\n".join(text.split("\n")[1:])
        if not body.strip():
            raise Invalid()
        obj = AceGroup(body, platform=platform, version=acl_case.get("version", "0"))
    flat = list(_flat(obj.items))
    n = len(flat)
    if n == 0 or n != len(acl_case["items"]):
        raise Invalid()
    late = case.get("late") or []
    if late and target == "acl":
        # entries appended to the list of the (possibly grouped) ACL after it was built: plain entries and
        # remarks that repeat a heading already used by a block
        from cisco_acl import Ace, Remark

        rems = [it["text"] for it in acl_case["items"] if it["t"] == "rem"]
        for el in late:
            if el[0] == "rem" and rems:
                obj.items.append(Remark("remark " + rems[el[1] % len(rems)], platform=platform))
            elif el[0] == "rem":
                obj.items.append(Remark("remark late", platform=platform))
            elif el[0] == "ace":
                obj.items.append(Ace("permit ip any any", platform=platform, version=acl_case.get("version", "0")))
            else:
                raise Invalid()
        flat = list(_flat(obj.items))
        n = len(flat)
    grouped = any(isinstance(o, AceGroup) for o in obj.items)
    ids = [id(o) for o in flat]
    uu = [(o.uuid, o.note) for o in flat]
    stripped = [_strip(o.line) for o in flat]
    v = Verdict()
    boundary = start in BOUNDARY or step in BOUNDARY or (start > 0 and abs(start + (n - 1) * step - MAX) <= max(step, 2))
    v.nt(n >= 2 and (grouped or boundary))
    if case.get("std"):
        v.label("standard-list")
    if case.get("spans_as_acl") and grouped:
        v.label("acl-nested-in-acl")
    v.label("acl-grouped" if grouped else ("acegroup" if target != "acl" else "acl-flat"),
            "boundary-args" if boundary else "plain-args")
    detail = {"target": target, "start": start, "step": step, "n": n, "text": text if len(text) < 900 else text[:900]}
    first = case.get("first")
    if first:
        # an earlier call on the SAME object (possibly refused) must not influence this one
        if not (isinstance(first, list) and len(first) == 2 and all(isinstance(x, int) and not isinstance(x, bool) for x in first)):
            raise Invalid()
        try:
            obj.resequence(first[0], first[1])
            v.label("earlier-call-returned")
        except ValueError:
            v.label("earlier-call-refused")
        detail["earlier_call"] = first
        ids = [id(o) for o in _flat(obj.items)]
    want_err = expected_error(start, step, n)
    try:
        ret = obj.resequence(start, step)
    except ValueError:
        if not want_err:
            v.fail("reseq:unexpected-error" + (":after-earlier-call" if first else ""), detail)
        v.label("error-expected" if want_err else "error-unexpected")
        return v
    if want_err:
        over = [o.sequence for o in _flat(obj.items) if o.sequence > MAX]
        v.fail("reseq:no-error" + (":number-above-max-left" if over else ""), dict(detail, ret=ret, over=over[:3]))
        return v
    flat2 = list(_flat(obj.items))
    want = [0 if start == 0 else start + i * step for i in range(n)]
    got = [o.sequence for o in flat2]
    if got != want:
        v.fail("reseq:numbers", dict(detail, got=got[:12], want=want[:12]))
    if ret != want[-1]:
        v.fail("reseq:return-value", dict(detail, ret=ret, want=want[-1]))
    if [id(o) for o in flat2] != ids:
        v.fail("reseq:items-replaced-or-reordered", detail)
    if [(o.uuid, o.note) for o in flat2] != uu:
        v.fail("reseq:uuid-or-note-changed", detail)
    if [_strip(o.line) for o in flat2] != stripped:
        v.fail("reseq:text-changed", dict(detail, after=[o.line for o in flat2][:8]))
    if any(s > MAX for s in got):
        v.fail("reseq:number-above-max", dict(detail, got=got[:12]))
    # rendered text carries the numbers too
    rendered = obj.line.split("\n")
    rendered = rendered[1:] if target == "acl" else rendered
    nums = []
    for ln in rendered:
        m = re.match(r"^\s*(\d+)\s+(permit|deny|remark)\b", ln)
        nums.append(int(m.group(1)) if m else 0)
    if nums != want:
        v.fail("reseq:rendered-numbers", dict(detail, rendered=rendered[:8]))
    return v


def args_st(n):
    """start/step aimed at the model's boundaries."""
    near = st.integers(-2, 2)

    @st.composite
    def go(draw):
        kind = draw(st.integers(0, 9))
        if kind < 3:
            return draw(st.sampled_from(BOUNDARY)), draw(st.sampled_from(BOUNDARY))
        if kind < 6:
            return draw(st.sampled_from([1, 5, 10, 100, 1000])), draw(st.sampled_from([1, 2, 5, 10, 100]))
        if kind < 9 and n > 1:
            step = draw(st.one_of(st.integers(1, 20), st.integers(1, MAX)))
            start = MAX - (n - 1) * step + draw(near)
            return start, step
        return draw(st.integers(-5, MAX + 5)), draw(st.integers(-3, MAX + 5))

    return go()


@st.composite
def acl_case_st(draw, tier):
    acl = draw(G.acl_st(min_items=1, max_items=10, kmax=2, groups=True, members=False, seqs=True))
    n = len(acl["items"])
    start, step = draw(args_st(n))
    acl["version"] = draw(st.sampled_from(["0", "0", "12.4", "15.2(02)SY", "16.09.06", "9.3(8)"]))
    case = {"acl": acl, "start": start, "step": step, "target": draw(st.sampled_from(["acl", "acl", "acl", "acegroup"]))}
    if draw(st.sampled_from([True, False, False])):
        case["first"] = list(draw(args_st(n)))
    if case["target"] == "acl" and draw(st.sampled_from(range(4))) == 0:
        case["late"] = [draw(st.sampled_from([["rem", 0], ["rem", 1], ["rem", 2], ["ace"]])) for _ in range(draw(st.integers(1, 3)))]
    if case["target"] == "acl" and acl["platform"] == "ios" and not acl["group_by"] and draw(st.sampled_from(range(5))) == 2:
        ok = []
        for it in acl["items"]:
            if it["t"] == "ace":
                src = it["rec"]["src"]
                if src["k"] == "group" or not R.is_contiguous(src["w"]):
                    it["rec"]["src"] = {"k": "any", "b": 0, "w": R.ALL1}
                it["rec"]["src"] = G.native_addr(G.addr_pair(it["rec"]["src"]), "ios")
            ok.append(it)
        case["std"] = True
        case.pop("late", None)
        return case
    if not acl["group_by"] and draw(st.booleans()):
        case["spans_as_acl"] = draw(st.sampled_from([False, False, True]))
        case["spans"] = [[draw(st.integers(0, n)), draw(st.integers(1, 4))] for _ in range(draw(st.integers(1, 3)))]
    return case


# --------------------------------------------------------------------------------------- address groups
def judge_addrgroup(case) -> Verdict:
    from cisco_acl import AddrGroup

    platform, start, step = case["platform"], case["start"], case["step"]
    members = [tuple(m) for m in case["members"]]
    if platform not in ("ios", "nxos") or not members:
        raise Invalid()
    for b, w in members:
        if not R.is_contiguous(w) or b & w or (platform == "ios" and w == R.ALL1):
            raise Invalid()
    head = ("object-group network " if platform == "ios" else "object-group ip address ") + "GRP"
    seqs = case.get("seqs") or []
    body = [member_text(m, platform, i, seqs[i % len(seqs)] if seqs else 0) for i, m in enumerate(members)]
    grp = AddrGroup(head + "\n" + "\n".join(" " + s for s in body), platform=platform)
    n = len(grp.items)
    if n != len(members):
        raise Invalid()
    v = Verdict()
    boundary = start in BOUNDARY or step in BOUNDARY
    v.nt(n >= 2 and boundary)
    v.label("addrgroup", "boundary-args" if boundary else "plain-args")
    ids = [id(o) for o in grp.items]
    base = [o.wildcard for o in grp.items]
    want_err = expected_error(start, step, n)
    detail = {"platform": platform, "start": start, "step": step, "n": n}
    try:
        ret = grp.resequence(start, step)
    except ValueError:
        if not want_err:
            v.fail("addrgroup:unexpected-error", detail)
        return v
    if want_err:
        v.fail("addrgroup:no-error", dict(detail, ret=ret))
        return v
    want = [0 if start == 0 else start + i * step for i in range(n)]
    got = [o.sequence for o in grp.items]
    if got != want:
        v.fail("addrgroup:numbers", dict(detail, got=got, want=want))
    if ret != want[-1]:
        v.fail("addrgroup:return-value", dict(detail, ret=ret))
    if [id(o) for o in grp.items] != ids or [o.wildcard for o in grp.items] != base:
        v.fail("addrgroup:members-changed", detail)
    return v


@st.composite
def addrgroup_case_st(draw, tier):
    platform = draw(st.sampled_from(["ios", "nxos"]))
    n = draw(st.integers(1, 6))
    if draw(st.integers(0, 14)) == 9:
        n = draw(st.integers(250, 300))  # more members than small-integer caching reaches
    members = []
    for _ in range(n):
        plen = draw(st.integers(8, 32))
        w = (1 << (32 - plen)) - 1
        members.append([draw(G.base_st()) & ~w & R.ALL1, w])
    start, step = draw(args_st(n))
    return {"platform": platform, "members": members, "start": start, "step": step,
            "seqs": draw(st.lists(st.integers(0, 50), max_size=3)) if platform == "nxos" else []}


SUBS = [
    Sub("acl", judge_acl, strategy=acl_case_st, quick=3000, thorough=150000, shards_thorough=48),
    Sub("addrgroup", judge_addrgroup, strategy=addrgroup_case_st, quick=1000, thorough=30000),
]

# coverage-guided twins (fuzz/fuzz_hyp.py): atheris mutates the bytes Hypothesis decodes into cases of the same strategy
SUBS += [__import__("lib.harness", fromlist=["x"]).cov_sub('C10', s_) for s_ in list(SUBS) if s_.name in ('acl',)]

MANIFEST = {
    "technique": "property-based testing against an arithmetic reference model of resequence(), with boundary-directed generation of start/step around 0, 1 and 2^32-1 and generated ACL shapes (flat, grouped, explicit AceGroups, address groups)",
    "text": "exploration: numbers, return value, error/no-error decision, unchanged text and unchanged item identity agree with the model on thousands (quick) / 180 000 (thorough) generated (shape, start, step) cases; the overflow boundary start+(n-1)*step vs 2^32-1 is approached from both sides by construction",
    "note": "trusted: the arithmetic model stated in the property; nothing is asserted about numbers after an error return; groups are non-empty",
}
MANIFEST["engine"] = MANIFEST.get("engine", "hypothesis") + " + atheris (coverage-guided twins of the Hypothesis sub-checks, fuzz/fuzz_hyp.py: 2 jobs x 8 s quick, 8 jobs x 200 s thorough)"
MANIFEST["technique"] += "; plus coverage-guided fuzzing of the same strategies (atheris/libFuzzer mutates the byte stream Hypothesis decodes into cases, the same oracle runs inside the target, findings are re-judged outside it)"
