"""C06 Rendered text is a fixed point of the parser at every object level."""
from __future__ import annotations

from hypothesis import strategies as st

from lib import gen as G
from lib import refsem as R
from lib.harness import Invalid, Sub, Verdict
from checks import c08
from checks.c13 import member_text

PROPERTY = "C06"
LEVEL = "exploration"
RULE = ("cases: objects of every exported class built from generated text - Port, Protocol, Option, Wildcard, "
        "Address, AddressAg, AddrGroup, Remark (arbitrary printable text incl. text that looks like a number, an "
        "ACE or the group prefix), Ace (extended and standard), AceGroup, Acl (extended / standard, names with "
        "punctuation, indent 0..4 or tab, group_by) and the config functions acls / aces / addrgroups - in "
        "native syntax (strict one-step fixpoint: t1 = X(input).line, X(t1).line == t1 and equal data()) and in "
        "accepted foreign spellings (meaning kept, text stable from the first re-parse on). Non-trivial: t1 "
        "differs from the whitespace-normalised input or the object has >= 2 items; distinct by canonical case")
RULE += ". Directed classes added after the seeded-change rounds: port_nr / protocol_nr flipped in place and re-parsed with the current switches; long remark texts; free-text option operands; long / keyword-like ACL names"
ASSUMPTIONS = ["one-step fixpoint is demanded when all addresses are in the platform's own spelling, two-step "
               "convergence otherwise (e.g. 0.0.0.0/0 on IOS)",
               "config functions are judged for indent >= 1 and non-empty bodies (the section splitter's domain)"]


def norm(text: str) -> str:
    return "\n".join(" ".join(ln.split()) for ln in text.split("\n") if ln.strip())


def fix(v: Verdict, where: str, cls, text: str, kw: dict, native: bool, meaning=None):
    """Generic fixpoint judge. meaning: optional callable text -> comparable (for foreign spellings)."""
    o1 = cls(text, **kw)
    t1 = o1.line
    try:
        o2 = cls(t1, **kw)
    except (ValueError, TypeError) as ex:
        v.fail(f"{where}:rendered-text-rejected", {"input": text, "rendered": t1, "kw": _kw(kw),
                                                  "error": f"{type(ex).__name__}: {ex}"[:200]})
        return None, t1
    t2 = o2.line
    if native:
        if t2 != t1:
            v.fail(f"{where}:not-a-fixpoint", {"input": text, "t1": t1, "t2": t2, "kw": _kw(kw)})
        elif o2.data() != o1.data():
            d1, d2 = o1.data(), o2.data()
            keys = [k for k in d1 if d1.get(k) != d2.get(k)]
            v.fail(f"{where}:data-differs", {"input": text, "t1": t1, "keys": keys, "kw": _kw(kw)})
    else:
        t3 = cls(t2, **kw).line
        if t3 != t2:
            v.fail(f"{where}:foreign-not-stable-after-first-reparse", {"input": text, "t1": t1, "t2": t2, "t3": t3})
        if meaning is not None:
            try:
                ms = [meaning(x) for x in (text, t1, t2)]
            except R.RefError as ex:
                v.fail(f"{where}:foreign-rendering-unreadable", {"input": text, "t1": t1, "t2": t2, "why": str(ex)[:200]})
                return o1, t1
            if not ms[0] == ms[1] == ms[2]:
                v.fail(f"{where}:foreign-meaning-changed", {"input": text, "t1": t1, "t2": t2})
    return o1, t1


def _kw(kw):
    return {k: (str(val) if not isinstance(val, (int, bool, str)) else val) for k, val in kw.items()}


# --------------------------------------------------------------------------------------- small objects
def judge_small(case) -> Verdict:
    from cisco_acl import Address, AddressAg, Option, Port, Protocol, Remark, Wildcard

    kind = case["kind"]
    v = Verdict()
    platform = case.get("platform", "ios")
    if platform not in ("ios", "nxos"):
        raise Invalid()
    if kind == "port":
        c08.validate_case(case["port"])
        line, _ = c08.build(case["port"])
        p = case["port"]
        kw = dict(platform=p["platform"], protocol=p["proto"], port_nr=bool(p.get("port_nr")), version=p.get("version", "0"))
        _, t1 = fix(v, "Port", Port, line, kw, True)
    elif kind == "protocol":
        tok = case["tok"]
        if not (tok.isdigit() and 0 <= int(tok) <= 255) and tok not in G.lib_proto_any():
            raise Invalid()
        kw = dict(platform=platform, protocol_nr=bool(case.get("protocol_nr")), has_port=bool(case.get("has_port")))
        line = tok
        _, t1 = fix(v, "Protocol", Protocol, tok, kw, True)
    elif kind == "option":
        toks = case["toks"]
        if any(not t or not t[0].islower() or not t[0].isalpha() or " " in t for t in toks):
            raise Invalid()
        line = " ".join(toks)
        _, t1 = fix(v, "Option", Option, line, dict(platform=platform), True)
    elif kind == "wildcard":
        b, w = case["b"], case["w"]
        if len(R.nc_bits(w)) > 16:
            raise Invalid()
        line = f"{R.int2ip(b)} {R.int2ip(w)}"
        _, t1 = fix(v, "Wildcard", Wildcard, line, dict(platform=platform), True)
    elif kind == "address":
        a = case["a"]
        G.validate_addr(a)
        line = G.render_addr(a, platform)
        native = G.addr_is_native(a, platform)

        def meaning(text):
            got, used = R._read_addr(text.split(), 0, platform, False)  # pylint: disable=protected-access
            if used != len(text.split()):
                raise R.RefError("trailing tokens")
            return got.meaning()

        _, t1 = fix(v, "Address", Address, line, dict(platform=platform), native, meaning)
        v.label("native" if native else "foreign")
    elif kind == "member":
        pair = tuple(case["pair"])
        if pair[0] & pair[1] or (platform == "ios" and (not R.is_contiguous(pair[1]) or pair[1] == R.ALL1)):
            raise Invalid()
        if len(R.nc_bits(pair[1])) > 8:
            raise Invalid()
        line = member_text(pair, platform, case.get("style", 0), case.get("seq", 0))
        _, t1 = fix(v, "AddressAg", AddressAg, line, dict(platform=platform), True)
    elif kind == "remark":
        text = case["text"]
        if not text or text != " ".join(text.split()):
            raise Invalid()
        line = (f"{case['seq']} " if case.get("seq") else "") + "remark " + text
        o1, t1 = fix(v, "Remark", Remark, line, dict(platform=platform), True)
        if o1 is not None and (o1.text != text or o1.sequence != (case.get("seq") or 0)):
            v.fail("Remark:text-or-sequence-changed", {"input": line, "text": o1.text, "sequence": o1.sequence})
    else:
        raise Invalid()
    v.label(kind)
    v.nt(t1 != " ".join(line.split()))
    return v


@st.composite
def small_st(draw, tier):
    kind = draw(st.sampled_from(["port", "protocol", "option", "wildcard", "address", "address", "member", "remark",
                                 "remark"]))
    platform = draw(st.sampled_from(["ios", "nxos"]))
    case = {"kind": kind, "platform": platform}
    if kind == "port":
        p = draw(c08.obj_case())
        p.pop("slow", None)
        if len(set(p["v"])) != len(p["v"]):
            p["v"] = sorted(set(p["v"]))
            p["nm"] = p["nm"][: len(p["v"])]
        case["port"] = p
    elif kind == "protocol":
        case["tok"] = draw(st.one_of(st.integers(0, 255).map(str), st.sampled_from(sorted(G.lib_proto_any()))))
        case["protocol_nr"] = draw(st.booleans())
        case["has_port"] = draw(st.booleans())
    elif kind == "option":
        pool = ["ack", "fin", "psh", "rst", "syn", "urg", "established", "log", "log-input", "fragments", "dscp", "ef",
                "precedence", "critical", "ttl", "eq", "time-range"]
        case["toks"] = draw(st.lists(st.sampled_from(pool), min_size=0, max_size=5))
    elif kind == "wildcard":
        case["b"] = draw(G.base_st())
        case["w"] = draw(G.wildmask_st(8))
    elif kind == "address":
        case["a"] = draw(G.addr_st(kmax=8, groups=True, members=False))
    elif kind == "member":
        if platform == "nxos" and draw(st.integers(0, 5)) == 0:
            w = draw(G.wildmask_st(3, nc_only=True))
        else:
            w = (1 << (32 - draw(st.integers(1, 32)))) - 1
        case["pair"] = [draw(G.base_st()) & ~w & R.ALL1, w]
        case["style"] = draw(st.integers(0, 3))
        case["seq"] = draw(st.sampled_from([0, 0, 5, 4294967295])) if platform == "nxos" else 0
    else:
        case["text"] = draw(G.remark_text_st())
        case["seq"] = draw(st.sampled_from([0, 0, 1, 10, 4294967295]))
    return case


# --------------------------------------------------------------------------------------- Ace
def judge_ace(case) -> Verdict:
    from cisco_acl import Ace

    platform = case["platform"]
    if platform not in ("ios", "nxos"):
        raise Invalid()
    v = Verdict()
    kw = dict(platform=platform, version=case.get("version", "0"), port_nr=bool(case.get("port_nr")),
              protocol_nr=bool(case.get("protocol_nr")))
    if case.get("standard"):
        if platform != "ios":
            raise Invalid()
        s = case["standard"]
        if s["form"] not in ("host", "bare", "wild", "any") or s.get("log") not in ("", "log"):
            raise Invalid()
        b, w = s["b"], s["w"]
        if not R.is_contiguous(w):
            raise Invalid()
        addr = {"host": f"host {R.int2ip(b)}", "bare": R.int2ip(b), "wild": f"{R.int2ip(b & ~w & R.ALL1)} {R.int2ip(w)}",
                "any": "any"}[s["form"]]
        line = " ".join(x for x in [str(s["seq"]) if s.get("seq") else "", s["action"], addr, s.get("log", "")] if x)
        o1, t1 = fix(v, "Ace-standard", Ace, line, kw, s["form"] != "bare" and not (s["form"] == "wild" and w in (0, R.ALL1)))
        if o1 is not None and o1.type != "standard":
            v.fail("Ace-standard:type", {"input": line, "type": o1.type})
        v.label("standard")
        v.nt(t1 != line)
        return v
    rec = case["rec"]
    G.validate_rec(rec, platform)
    line = G.render_ace(rec, platform, kw["version"])
    native = all(G.addr_is_native(rec[s], platform) for s in ("src", "dst"))

    def meaning(text):
        r = R.read_ace(text, platform, G.names_fn(platform, kw["version"]), G.lib_proto_any())
        return (r.seq, r.meaning())

    o1, t1 = fix(v, "Ace", Ace, line, kw, native, meaning)
    if o1 is not None and o1.sequence != (rec.get("seq") or 0):
        v.fail("Ace:sequence", {"input": line, "sequence": o1.sequence})
    v.label("extended", "native" if native else "foreign")
    v.nt(t1 != " ".join(line.split()))
    return v


@st.composite
def ace_case_st(draw, tier):
    platform = draw(st.sampled_from(["ios", "nxos"]))
    case = {"platform": platform, "version": draw(st.sampled_from(["0", "0", "15.2(02)SY", "16.09.06", "9.3(8)"])),
            "port_nr": draw(st.booleans()), "protocol_nr": draw(st.booleans())}
    if platform == "ios" and draw(st.integers(0, 4)) == 0:
        w = (1 << draw(st.integers(0, 32))) - 1
        case["standard"] = {"form": draw(st.sampled_from(["host", "bare", "wild", "any"])), "b": draw(G.base_st()),
                            "w": w, "action": draw(st.sampled_from(["permit", "deny"])),
                            "seq": draw(st.sampled_from([0, 0, 10])), "log": draw(st.sampled_from(["", "", "log"]))}
        return case
    rec = draw(G.ace_st(platform, case["version"], kmax=6, groups=True, members=False, empty_sets=True, opaque=True))
    if draw(st.booleans()):
        ws = rec.get("ws")
        rec = G.to_native(rec, platform)
        rec["ws"] = ws
    case["rec"] = rec
    return case


# --------------------------------------------------------------------------------------- containers
def judge_acl(case) -> Verdict:
    import cisco_acl
    from cisco_acl import AceGroup, Acl

    acl_case = case["acl"]
    G.validate_acl(acl_case)
    platform = acl_case["platform"]
    v = Verdict()
    kw = G.acl_kwargs(acl_case)
    kw["indent"] = acl_case.get("indent", "  ")
    text = G.render_acl(dict(acl_case, indent=acl_case.get("indent") or " "), noise=bool(case.get("noise")))
    native = all(G.addr_is_native(it["rec"][s], platform) for it in acl_case["items"] if it["t"] == "ace"
                 for s in ("src", "dst"))

    def meaning(t):
        hdr, flat = G.read_flat(t, platform, acl_case.get("version", "0"), strict=False)
        return (hdr.name, hdr.type, flat)

    level = case.get("level", "acl")
    if level == "acegroup":
        body = "\n".join(text.split("\n")[1:])
        if not body.strip():
            raise Invalid()
        gkw = {k: val for k, val in kw.items() if k not in ("indent", "group_by")}

        def gmeaning(t):
            return meaning(G.acl_header(acl_case) + "\n" + t)[2]

        o1, t1 = fix(v, "AceGroup", AceGroup, body, gkw, native, gmeaning)
        if o1 is not None and len(o1.items) != len(acl_case["items"]):
            v.fail("AceGroup:item-count", {"input": body, "items": len(o1.items)})
        v.label("acegroup")
        v.nt(len(acl_case["items"]) >= 2)
        return v
    o1, t1 = fix(v, "Acl", Acl, text, kw, native, meaning)
    if o1 is None:
        return v
    if o1.name != acl_case["name"] or o1.type != acl_case.get("type", "extended") or o1.indent != kw["indent"]:
        v.fail("Acl:name-type-indent", {"input": text, "got": [o1.name, o1.type, o1.indent]})
    n_flat = sum(1 for _ in _flat(o1.items))
    if n_flat != len(acl_case["items"]):
        v.fail("Acl:item-count", {"input": text, "items": n_flat, "want": len(acl_case["items"])})
    v.label("acl", "native" if native else "foreign", "grouped" if acl_case.get("group_by") else "flat",
            f"indent={len(kw['indent'])}")
    v.nt(len(acl_case["items"]) >= 2 or norm(t1) != norm(text))
    flips = case.get("flips") or []
    if flips and native and not v.fails:
        # the switches changed in place after construction: the text rendered then is a fixed point of the parser
        # called with the object's current switches
        o, kw2 = Acl(text, **kw), dict(kw)
        for sw, val in flips:
            if sw not in ("port_nr", "protocol_nr") or not isinstance(val, bool):
                raise Invalid()
            setattr(o, sw, val)
            kw2[sw] = val
            tf = o.line
            try:
                of = Acl(tf, **kw2)
            except (ValueError, TypeError) as ex:
                v.fail("Acl:after-switch-in-place:rendered-text-rejected", {"input": text, "rendered": tf, "kw": _kw(kw2),
                                                                            "error": f"{type(ex).__name__}: {ex}"[:200]})
                break
            if of.line != tf:
                v.fail("Acl:after-switch-in-place:not-a-fixpoint", {"input": text, "flips": flips, "t1": tf, "t2": of.line,
                                                                    "kw": _kw(kw2)})
                break
            if of.data() != o.data():
                d1, d2 = o.data(), of.data()
                v.fail("Acl:after-switch-in-place:data-differs", {"input": text, "flips": flips,
                                                                  "keys": [k for k in d1 if d1.get(k) != d2.get(k)]})
                break
        v.label("switch-in-place")
    # config-level functions: indent >= 1, non-empty body
    if kw["indent"] and acl_case["items"] and native and not v.fails:
        fkw = dict(kw)
        got = cisco_acl.acls(t1, **fkw)
        if len(got) != 1 or got[0].line != t1:
            v.fail("acls():rendered-acl-not-returned-as-is", {"t1": t1, "got": [g.line for g in got], "kw": _kw(fkw)})
        elif got[0].data() != Acl(t1, **kw).data():
            d1, d2 = got[0].data(), Acl(t1, **kw).data()
            v.fail("acls():data-differs", {"t1": t1, "keys": [k for k in d1 if d1[k] != d2.get(k)]})
        akw = {k: val for k, val in fkw.items() if k != "indent"}
        items = cisco_acl.aces(t1, **akw)
        flat = [o.line for o in _flat(items)]
        want = [o.line for o in _flat(o1.items)]
        if flat != want:
            v.fail("aces():differs-from-acl-items", {"t1": t1, "got": flat, "want": want})
        v.label("config-functions")
    return v


def _flat(items):
    from cisco_acl import AceGroup

    for it in items:
        if isinstance(it, AceGroup):
            yield from _flat(it.items)
        else:
            yield it


@st.composite
def acl_case_st(draw, tier):
    native = draw(st.integers(0, 3)) > 0
    acl = draw(G.acl_st(max_items=8, kmax=3, groups=True, members=False, seqs=True, native=native, empty_sets=True,
                        opaque=True))
    acl["port_nr"] = draw(st.booleans())
    acl["protocol_nr"] = draw(st.booleans())
    acl["version"] = draw(st.sampled_from(["0", "0", "15.2(02)SY", "16.09.06", "12.4", "9.3(8)"]))
    if draw(st.sampled_from(range(4))) == 0:
        # version-sensitive entry: a port whose name exists in another version / platform table only
        aces = [it for it in acl["items"] if it["t"] == "ace"]
        if aces:
            rec = draw(st.sampled_from(aces))["rec"]
            proto, nr = draw(st.sampled_from([(6, 135), (6, 15001), (6, 15002), (17, 521), (6, 3949), (6, 514)]))
            rec["proto"], rec["flags"] = proto, []
            rec[draw(st.sampled_from(["sp", "dp"]))] = {"op": "eq", "v": [nr], "nm": [-1]}
            if acl["platform"] == "ios":
                acl["version"] = draw(st.sampled_from(["15.2(02)SY", "15.2(02)SY", "16.09.06", "12.4"]))
            acl["port_nr"] = False
            if any(it["t"] == "rem" and it["text"].startswith(acl["prefix"]) for it in acl["items"]) and draw(st.booleans()):
                acl["group_by"] = acl["prefix"]
    acl["name"] = draw(st.one_of(st.sampled_from(["T", "ACL-1", "acl_x.y", "110", "a(b)c", "X&Y", "n:1/2"]), G.acl_name_st()))
    if draw(st.sampled_from(range(10))) == 0:
        acl["indent"] = ""
    case = {"acl": acl, "level": draw(st.sampled_from(["acl", "acl", "acl", "acegroup"])), "noise": draw(st.booleans())}
    if draw(st.sampled_from(range(3))) == 0:
        case["flips"] = [[draw(st.sampled_from(["port_nr", "protocol_nr"])), draw(st.booleans())]
                         for _ in range(draw(st.integers(1, 3)))]
    return case


def judge_std_acl(case) -> Verdict:
    from cisco_acl import Acl

    v = Verdict()
    lines = []
    for s in case["aces"]:
        if s["form"] not in ("host", "wild", "any") or not R.is_contiguous(s["w"]) or s["w"] in (0, R.ALL1) and s["form"] == "wild":
            raise Invalid()
        b, w = s["b"], s["w"]
        addr = {"host": f"host {R.int2ip(b)}", "wild": f"{R.int2ip(b & ~w & R.ALL1)} {R.int2ip(w)}", "any": "any"}[s["form"]]
        lines.append(" ".join(x for x in [str(s["seq"]) if s.get("seq") else "", s["action"], addr, s.get("log", "")] if x))
    for r in case.get("remarks") or []:
        if not r or r != " ".join(r.split()):
            raise Invalid()
        lines.insert(0, "remark " + r)
    if not lines:
        raise Invalid()
    text = f"ip access-list standard {case['name']}\n" + "\n".join(" " + ln for ln in lines)
    kw = dict(platform="ios", indent=case.get("indent", " "))
    o1, t1 = fix(v, "Acl-standard", Acl, text, kw, True)
    if o1 is not None:
        if o1.type != "standard":
            v.fail("Acl-standard:type", {"input": text, "type": o1.type})
        if len(o1.items) != len(lines):
            v.fail("Acl-standard:item-count", {"input": text, "items": [o.line for o in o1.items]})
    v.label("standard-acl")
    v.nt(len(lines) >= 2)
    return v


@st.composite
def std_acl_st(draw, tier):
    aces = []
    for _ in range(draw(st.integers(1, 5))):
        w = (1 << draw(st.integers(1, 31))) - 1
        aces.append({"form": draw(st.sampled_from(["host", "wild", "any"])), "b": draw(G.base_st()), "w": w,
                     "action": draw(st.sampled_from(["permit", "deny"])), "seq": draw(st.sampled_from([0, 0, 10, 20])),
                     "log": draw(st.sampled_from(["", "", "log"]))})
    return {"aces": aces, "remarks": draw(st.lists(G.remark_text_st(), max_size=2)),
            "name": draw(st.sampled_from(["S1", "10", "std-x"])), "indent": draw(st.sampled_from([" ", "  ", "\t"]))}


def judge_addrgroup(case) -> Verdict:
    import cisco_acl
    from cisco_acl import AddrGroup

    platform = case["platform"]
    members = [tuple(m) for m in case["members"]]
    if platform not in ("ios", "nxos") or not members:
        raise Invalid()
    for b, w in members:
        if b & w or (platform == "ios" and (not R.is_contiguous(w) or w == R.ALL1)) or len(R.nc_bits(w)) > 6:
            raise Invalid()
    seqs = case.get("seqs") or []
    head = ("object-group network " if platform == "ios" else "object-group ip address ") + case.get("name", "G")
    body = [member_text(m, platform, i + case.get("style", 0), seqs[i % len(seqs)] if seqs else 0)
            for i, m in enumerate(members)]
    text = head + "\n" + "\n".join(" " + s for s in body)
    kw = dict(platform=platform, indent=case.get("indent", "  "))
    v = Verdict()
    o1, t1 = fix(v, "AddrGroup", AddrGroup, text, kw, True)
    if o1 is not None:
        if len(o1.items) != len(members) or o1.name != case.get("name", "G"):
            v.fail("AddrGroup:members-or-name", {"input": text, "items": [o.line for o in o1.items]})
        if kw["indent"] and not v.fails:
            got = cisco_acl.addrgroups(t1, **kw)
            if len(got) != 1 or got[0].line != t1:
                v.fail("addrgroups():rendered-group-not-returned-as-is", {"t1": t1, "got": [g.line for g in got]})
    v.label("addrgroup", platform)
    v.nt(len(members) >= 2 or norm(t1) != norm(text))
    return v


@st.composite
def addrgroup_st(draw, tier):
    platform = draw(st.sampled_from(["ios", "nxos"]))
    members = []
    for _ in range(draw(st.integers(1, 6))):
        if platform == "nxos" and draw(st.integers(0, 7)) == 0:
            w = draw(G.wildmask_st(3, nc_only=True))
        else:
            w = (1 << (32 - draw(st.integers(1, 32)))) - 1
        members.append([draw(G.base_st()) & ~w & R.ALL1, w])
    return {"platform": platform, "members": members, "style": draw(st.integers(0, 3)),
            "seqs": draw(st.lists(st.sampled_from([0, 5, 10, 4294967295]), max_size=3)) if platform == "nxos" else [],
            "name": draw(st.sampled_from(["G", "NET-A", "g.3", "x_y"])),
            "indent": draw(st.sampled_from([" ", "  ", "   ", "\t", ""]))}


SUBS = [
    Sub("small", judge_small, strategy=small_st, quick=4000, thorough=120000),
    Sub("ace", judge_ace, strategy=ace_case_st, quick=4000, thorough=120000, shards_thorough=48),
    Sub("acl", judge_acl, strategy=acl_case_st, quick=1200, thorough=40000, shards_thorough=48),
    Sub("std-acl", judge_std_acl, strategy=std_acl_st, quick=500, thorough=10000),
    Sub("addrgroup", judge_addrgroup, strategy=addrgroup_st, quick=1000, thorough=30000),
]

# coverage-guided twins (fuzz/fuzz_hyp.py): atheris mutates the bytes Hypothesis decodes into cases of the same strategy
SUBS += [__import__("lib.harness", fromlist=["x"]).cov_sub('C06', s_) for s_ in list(SUBS) if s_.name in ('ace',)]

MANIFEST = {
    "technique": "property-based round-trip testing: generated objects of every exported class are rendered, re-parsed with the same settings and compared (text and data()); foreign spellings are compared by meaning with the independent reader",
    "text": "exploration: strict one-step fixpoint (text and exported data) for native-syntax inputs and two-step convergence with preserved meaning for foreign spellings, over thousands (quick) / 300 000 (thorough) generated objects of all eleven classes plus acls()/aces()/addrgroups() on rendered text",
    "note": "trusted: lib/refsem.py for the meaning of foreign spellings; config functions judged only for indent >= 1 and non-empty bodies; remark text is generated with single blanks (the parser normalises whitespace)",
}
MANIFEST["engine"] = MANIFEST.get("engine", "hypothesis") + " + atheris (coverage-guided twins of the Hypothesis sub-checks, fuzz/fuzz_hyp.py: 2 jobs x 8 s quick, 8 jobs x 200 s thorough)"
MANIFEST["technique"] += "; plus coverage-guided fuzzing of the same strategies (atheris/libFuzzer mutates the byte stream Hypothesis decodes into cases, the same oracle runs inside the target, findings are re-judged outside it)"
