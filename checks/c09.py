"""C09 Port/protocol names are pure spelling of their standard numbers (finite, enumerated)."""
from __future__ import annotations

from lib import reftables as T
from lib.harness import Sub, Verdict

PROPERTY = "C09"
LEVEL = "exploration"
RULE = ("complete enumeration: (platform in asa,ios,nxos) x (version in 0, 12.4, 15.2(02)SY, 16.09.06, 17.3, "
        "9.3(8)) x (tcp, udp) x every name of the selected table; every port number 1..65535 "
        "per table for rendering; all 256 protocol numbers and every protocol name x platform x "
        "switch. Oracle: frozen Cisco/IANA reference tables (lib/reftables.py) for numbers and membership, "
        "closure name -> number -> rendered text -> number through Port and Ace, vocabulary disjointness. "
        "Non-trivial: a name (not a bare number) is involved; distinct by (platform, version, protocol, name)")
RULE += ". Directed classes added after the seeded-change rounds: one port in two spellings in a list; numeric protocol 6 / 17 with named ports; the cover test between two entries under all combinations of the numeric switch"
ASSUMPTIONS = ["lib/reftables.py: keyword -> number facts typed in from the Cisco command references / IANA",
               "names the library knows but the reference does not are counted, never failed"]

PLATFORMS = ("asa", "ios", "nxos")
VERSIONS = ("0", "12.4", "15.2(02)SY", "16.09.06", "17.3", "9.3(8)")
PROTOS = ("tcp", "udp")


def _major(version: str) -> int:
    head = version.split(".")[0]
    return int(head) if head.isdigit() else 0


def judge_name(case) -> Verdict:
    """One (platform, version, protocol, name) of the library's table."""
    from cisco_acl import Ace, Port
    from cisco_acl.port_name import PortName, all_known_names

    v = Verdict()
    platform, version, proto, name = case["platform"], case["version"], case["proto"], case["name"]
    table = PortName(proto, platform, version).names()
    if name not in table:
        v.fail("name:vanished-from-table", case)
        return v
    nr = table[name]
    v.nt()
    v.label(f"{platform}-{proto}")
    ref = (T.REF_TCP if proto == "tcp" else T.REF_UDP).get(name)
    if ref is None:
        v.label("unknown-to-oracle")
    elif ref != nr:
        v.fail("name:wrong-number", {"case": case, "library": nr, "reference": ref})
    for pf, maj, pr, nm in T.MUST_NOT:
        if (pf, pr, nm) == (platform, proto, name) and (maj is None or maj == _major(version)):
            v.fail("name:accepted-but-not-valid-on-platform", case)
    if name in T.RESERVED_WORDS:
        v.fail("name:collides-with-keyword", case)
    if name not in all_known_names():
        v.fail("name:missing-from-all_known_names", case)
    kw = dict(platform=platform, version=version, protocol=proto)
    p = Port(f"eq {name}", **kw)
    if p.ports != [nr] or p.items != [nr]:
        v.fail("name:Port-parses-other-number", {"case": case, "ports": p.ports[:5]})
    again = Port(p.line, **kw)
    if again.ports != [nr]:
        v.fail("name:rendered-name-means-other-number", {"case": case, "rendered": p.line, "ports": again.ports[:5]})
    pn = Port(f"eq {name}", port_nr=True, **kw)
    if pn.line != f"eq {nr}" or pn.ports != [nr]:
        v.fail("name:port_nr-changes-meaning-or-keeps-name", {"case": case, "line": pn.line})
    rendered_name = p.line.split()[1]
    if not rendered_name.isdigit() and table.get(rendered_name) != nr:
        v.fail("name:rendered-name-not-in-table", {"case": case, "rendered": p.line})
    if platform == "ios":
        # one port written twice in a list, in two spellings (the name and its number, two names of one number)
        twins = [str(nr)] + sorted(n for n, x in table.items() if x == nr and n != name)
        for other in twins:
            for text in (f"eq {name} {other}", f"eq {other} {name}"):
                for port_nr in (False, True):
                    try:
                        pp = Port(text, port_nr=port_nr, **kw)
                    except ValueError:
                        v.label("twice-in-a-list-refused")
                        continue
                    if set(pp.ports) != {nr}:
                        v.fail("name:two-spellings-in-a-list:other-numbers", {"case": case, "text": text, "ports": pp.ports[:5]})
                        continue
                    try:
                        back = Port(pp.line, port_nr=port_nr, **kw)
                    except ValueError as ex:
                        v.fail("name:two-spellings-in-a-list:rendered-text-rejected",
                               {"case": case, "text": text, "rendered": pp.line, "error": str(ex)[:160]})
                        continue
                    if set(back.ports) != {nr}:
                        v.fail("name:two-spellings-in-a-list:rendered-text-means-other-numbers",
                               {"case": case, "text": text, "rendered": pp.line})
    # through Ace: name on both sides, 'log' must stay an option; the protocol as keyword and as number
    pnum = {"tcp": "6", "udp": "17"}[proto]
    for port_nr, ptxt in ((False, proto), (True, proto), (False, pnum), (True, pnum)):
        ace = Ace(f"permit {ptxt} any eq {name} any eq {name} log", platform=platform, version=version, port_nr=port_nr)
        if ace.srcport.ports != [nr] or ace.dstport.ports != [nr]:
            v.fail("name:Ace-splits-name-wrongly", {"case": case, "line": ace.line})
        if ace.option.logs != ["log"] or ace.option.flags:
            v.fail("name:Ace-option-mixed-with-port", {"case": case, "option": ace.option.line, "line": ace.line})
        back = Ace(ace.line, platform=platform, version=version, port_nr=port_nr)
        if back.srcport.ports != [nr] or back.dstport.ports != [nr] or back.line != ace.line:
            v.fail("name:Ace-rendered-line-rereads-differently", {"case": case, "line": ace.line, "again": back.line})
        if port_nr and ace.line != f"permit {proto} any eq {nr} any eq {nr} log":
            v.fail("name:Ace-port_nr-text", {"case": case, "line": ace.line})
    return v


def enum_names(tier, shard, nshards):
    from cisco_acl.port_name import PortName

    idx = 0
    for platform in PLATFORMS:
        for version in VERSIONS:
            for proto in PROTOS:
                for name in sorted(PortName(proto, platform, version).names()):
                    if idx % nshards == shard:
                        yield {"platform": platform, "version": version, "proto": proto, "name": name}
                    idx += 1


def judge_must(case) -> Verdict:
    """Names the reference says every IOS / NX-OS release documents must be accepted there."""
    from cisco_acl.port_name import PortName

    v = Verdict()
    v.nt()
    table = PortName(case["proto"], case["platform"], case["version"]).names()
    ref = T.REF_TCP if case["proto"] == "tcp" else T.REF_UDP
    if case["name"] not in table:
        v.fail("must:name-rejected", case)
    elif table[case["name"]] != ref[case["name"]]:
        v.fail("must:wrong-number", {"case": case, "library": table[case["name"]]})
    v.label("must-accept")
    return v


def enum_must(tier, shard, nshards):
    idx = 0
    for platform in ("ios", "nxos"):
        for version in VERSIONS:
            for proto, names in (("tcp", T.MUST_TCP_IOS_NXOS), ("udp", T.MUST_UDP_IOS_NXOS)):
                for name in names:
                    if idx % nshards == shard:
                        yield {"platform": platform, "version": version, "proto": proto, "name": name}
                    idx += 1


def judge_vocab(case) -> Verdict:
    """Every name of any table is split as a port, never as an option; no collisions."""
    from cisco_acl import parsers
    from cisco_acl.port_name import all_known_names

    v = Verdict()
    name = case["name"]
    v.nt()
    v.label("vocab")
    if name not in all_known_names():
        v.fail("vocab:missing-from-all_known_names", case)
    if name in T.RESERVED_WORDS:
        v.fail("vocab:collides-with-keyword", case)
    for proto in PROTOS:
        got = parsers.parse_ace_extended(f"permit {proto} any any eq {name} log")
        if not got or got.get("dstport") != f"eq {name}" or got.get("option") != "log":
            v.fail("vocab:name-not-split-as-port", {"name": name, "parsed": got})
        got = parsers.parse_ace_extended(f"permit {proto} any any eq 1 {name} ack log")
        if not got or got.get("dstport") != f"eq 1 {name}" or got.get("option") != "ack log":
            v.fail("vocab:name-not-split-as-port", {"name": name, "parsed": got})
    return v


def enum_vocab(tier, shard, nshards):
    from cisco_acl.port_name import PortName, all_known_names

    names = set(all_known_names())
    for platform in PLATFORMS:
        for version in VERSIONS:
            for proto in PROTOS:
                names.update(PortName(proto, platform, version).names())
    for idx, name in enumerate(sorted(names)):
        if idx % nshards == shard:
            yield {"name": name}


def judge_number(case) -> Verdict:
    """A block of port numbers on one (platform, version, protocol): rendering re-reads to the number."""
    from cisco_acl import Port
    from cisco_acl.port_name import PortName

    v = Verdict()
    kw = dict(platform=case["platform"], version=case["version"], protocol=case["proto"])
    table = PortName(case["proto"], case["platform"], case["version"]).names()
    named = set(table.values())
    hit = 0
    for nr in range(case["lo"], case["hi"] + 1, case.get("step", 1)):
        p = Port(f"eq {nr}", **kw)
        text = p.line
        tok = text.split()[1] if len(text.split()) == 2 else ""
        if nr in named:
            hit += 1
            if tok.isdigit() or table.get(tok) != nr:
                v.fail("number:named-port-renders-wrong-token", {"case": kw, "nr": nr, "line": text})
            if Port(text, **kw).ports != [nr]:
                v.fail("number:rendered-text-rereads-differently", {"case": kw, "nr": nr, "line": text})
        elif text != f"eq {nr}":
            v.fail("number:unnamed-port-does-not-render-as-itself", {"case": kw, "nr": nr, "line": text})
        if p.ports != [nr]:
            v.fail("number:parsed-as-other-number", {"case": kw, "nr": nr})
        if nr in named or nr % 97 == 0:
            pn = Port(f"eq {nr}", port_nr=True, **kw)
            if pn.line != f"eq {nr}":
                v.fail("number:port_nr-text", {"case": kw, "nr": nr, "line": pn.line})
        if v.fails:
            break
    v.nt(hit > 0)
    v.label("block-with-names" if hit else "block-numeric")
    v.key = case
    return v


def enum_numbers(tier, shard, nshards):
    idx = 0
    block = 512
    for platform in PLATFORMS:
        for version in VERSIONS:
            for proto in PROTOS:
                for lo in range(1, 65536, block):
                    hi = min(65535, lo + block - 1)
                    if idx % nshards == shard:
                        case = {"platform": platform, "version": version, "proto": proto, "lo": lo, "hi": hi}
                        yield case
                    idx += 1


def judge_protocol(case) -> Verdict:
    from cisco_acl import Ace, Protocol
    from cisco_acl.protocol import PROTOCOL_TO_NR

    v = Verdict()
    platform, tok = case["platform"], case["tok"]
    is_name = not tok.isdigit()
    v.nt(is_name)
    v.label("proto-name" if is_name else "proto-number")
    if is_name:
        want = T.REF_PROTO.get(tok)
        if want is None:
            v.label("unknown-to-oracle")
        if tok in T.RESERVED_WORDS or tok in T.REF_TCP and tok not in ("tcp",) and False:
            v.fail("proto:collides-with-keyword", case)
    else:
        want = int(tok)
    for protocol_nr in (False, True):
        for has_port in (False, True):
            p = Protocol(tok, platform=platform, protocol_nr=protocol_nr, has_port=has_port)
            if want is not None and p.number != want:
                v.fail("proto:wrong-number", {"case": case, "library": p.number, "reference": want})
                return v
            nr = p.number
            text = p.line
            back = Protocol(text, platform=platform, protocol_nr=protocol_nr, has_port=has_port)
            if back.number != nr:
                v.fail("proto:rendered-text-rereads-differently", {"case": case, "line": text, "again": back.number})
            if not text.isdigit():
                if PROTOCOL_TO_NR[platform].get(text) != nr:
                    v.fail("proto:rendered-name-not-native", {"case": case, "line": text})
                if T.REF_PROTO.get(text, nr) != nr:
                    v.fail("proto:rendered-name-wrong-number", {"case": case, "line": text})
            if protocol_nr and not has_port and text != str(nr):
                v.fail("proto:protocol_nr-keeps-name", {"case": case, "line": text})
    if platform != "asa":
        for protocol_nr in (False, True):
            ace = Ace(f"permit {tok} any any", platform=platform, protocol_nr=protocol_nr)
            nr = ace.protocol.number
            if want is not None and nr != want:
                v.fail("proto:Ace-wrong-number", {"case": case, "library": nr})
            back = Ace(ace.line, platform=platform, protocol_nr=protocol_nr)
            if back.protocol.number != nr or back.line != ace.line:
                v.fail("proto:Ace-rendered-line-rereads-differently", {"case": case, "line": ace.line})
            if protocol_nr and ace.line != f"permit {nr} any any":
                v.fail("proto:Ace-protocol_nr-text", {"case": case, "line": ace.line})
        # the switch is spelling only: an operation that consumes the protocol (cover test between two entries)
        # answers the same whichever way either entry is rendered
        if want is not None:
            other = 17 if want != 17 else 6
            for pn_top in (False, True):
                for pn_bot in (False, True):
                    top = Ace(f"permit {tok} any any", platform=platform, protocol_nr=pn_top)
                    ip_top = Ace("permit ip any any", platform=platform, protocol_nr=pn_top)
                    same = Ace(f"permit {tok} host 10.0.0.1 any", platform=platform, protocol_nr=pn_bot)
                    diff = Ace(f"permit {other} host 10.0.0.1 any", platform=platform, protocol_nr=pn_bot)
                    answers = (same.shadow_of(top), same.shadow_of(ip_top), diff.shadow_of(top))
                    if answers != (True, True, want == 0):
                        v.fail("proto:cover-test-depends-on-the-numeric-switch",
                               {"case": case, "top_nr": pn_top, "bottom_nr": pn_bot, "answers": answers,
                                "want": (True, True, want == 0)})
    return v


def enum_protocols(tier, shard, nshards):
    from cisco_acl.protocol import PROTOCOLS_ANY

    idx = 0
    for platform in PLATFORMS:
        for tok in [str(n) for n in range(256)] + sorted(PROTOCOLS_ANY):
            if idx % nshards == shard:
                yield {"platform": platform, "tok": tok}
            idx += 1


def judge_native_proto(case) -> Verdict:
    """Reference membership: names the vendor documents for the platform must be in its table."""
    from cisco_acl.protocol import PROTOCOL_TO_NR

    v = Verdict()
    v.nt()
    v.label("proto-native-table")
    table = PROTOCOL_TO_NR[case["platform"]]
    for name, nr in table.items():
        if T.REF_PROTO.get(name, nr) != nr:
            v.fail("proto:native-table-wrong-number", {"platform": case["platform"], "name": name, "library": nr})
        if name in T.RESERVED_WORDS:
            v.fail("proto:collides-with-keyword", {"name": name})
    for name in ("ip", "icmp", "tcp", "udp", "gre", "esp", "ospf", "eigrp", "pim", "igmp"):
        if table.get(name) != T.REF_PROTO[name]:
            v.fail("proto:core-name-missing-or-wrong", {"platform": case["platform"], "name": name})
    return v


def enum_native_proto(tier, shard, nshards):
    for idx, platform in enumerate(PLATFORMS):
        if idx % nshards == shard:
            yield {"platform": platform}


def judge_switch(case) -> Verdict:
    """A named port keeps its number when the object is moved to another platform, and the text it renders
    there is accepted by that platform (names are spelling only)."""
    from cisco_acl import Ace, Port
    from cisco_acl.port_name import PortName

    v = Verdict()
    p1, p2, proto, name, version = case["from"], case["to"], case["proto"], case["name"], case.get("version", "0")
    nr = PortName(proto, p1, version).names()[name]
    v.nt()
    v.label(f"{p1}->{p2}")
    for warm in (False, True):
        port = Port(f"eq {name}", platform=p1, protocol=proto, version=version)
        if warm:
            _ = port.line  # render once on the source platform before the switch
        port.platform = p2
        table2 = PortName(proto, p2, version).names()
        tok = port.line.split()[-1]
        if port.ports != [nr] or port.items != [nr]:
            v.fail("switch:number-changed", {"case": case, "ports": port.ports[:4]})
        if not tok.isdigit() and table2.get(tok) != nr:
            v.fail("switch:renders-name-of-other-platform", {"case": case, "line": port.line, "rendered_before_switch": warm})
        elif Port(port.line, platform=p2, protocol=proto, version=version).ports != [nr]:
            v.fail("switch:rendered-text-rereads-differently", {"case": case, "line": port.line})
    if p1 != "asa" and p2 != "asa":
        ace = Ace(f"permit {proto} any eq {name} any eq {name}", platform=p1, version=version)
        _ = ace.line
        ace.platform = p2
        back = Ace(ace.line, platform=p2, version=version)
        if back.srcport.ports != [nr] or back.dstport.ports != [nr]:
            v.fail("switch:Ace-meaning-changed", {"case": case, "line": ace.line})
    return v


def enum_switch(tier, shard, nshards):
    from cisco_acl.port_name import PortName

    idx = 0
    for p1 in PLATFORMS:
        for p2 in PLATFORMS:
            if p1 == p2:
                continue
            for version in ("0", "15.2(02)SY"):
                for proto in PROTOS:
                    for name in sorted(PortName(proto, p1, version).names()):
                        if idx % nshards == shard:
                            yield {"from": p1, "to": p2, "proto": proto, "name": name, "version": version}
                        idx += 1


def judge_ace_number(case) -> Verdict:
    """A port number that has a name on SOME platform/version: inside an ACE, in source and in destination
    position, the rendered name must belong to THIS platform/version table and re-read to the number."""
    from cisco_acl import Ace
    from cisco_acl.port_name import PortName

    v = Verdict()
    platform, version, proto, nr = case["platform"], case["version"], case["proto"], case["nr"]
    table = PortName(proto, platform, version).names()
    kw = dict(platform=platform, version=version)
    for text in (f"permit {proto} any eq {nr} any", f"permit {proto} any any eq {nr}", f"permit {proto} any eq {nr} any eq {nr} log"):
        ace = Ace(text, **kw)
        for port in (ace.srcport, ace.dstport):
            if not port.line:
                continue
            tok = port.line.split()[-1]
            if port.ports != [nr]:
                v.fail("acenum:parsed-as-other-number", {"case": case, "text": text})
            if not tok.isdigit() and table.get(tok) != nr:
                v.fail("acenum:renders-name-not-valid-for-platform-version", {"case": case, "text": text, "line": ace.line})
            if tok.isdigit() and nr in table.values():
                v.fail("acenum:named-port-rendered-as-number", {"case": case, "text": text, "line": ace.line})
        try:
            back = Ace(ace.line, **kw)
        except ValueError as ex:
            v.fail("acenum:rendered-line-rejected", {"case": case, "text": text, "line": ace.line, "error": str(ex)[:160]})
            continue
        if (back.srcport.ports, back.dstport.ports, back.option.line) != (ace.srcport.ports, ace.dstport.ports, ace.option.line):
            v.fail("acenum:rendered-line-rereads-differently", {"case": case, "text": text, "line": ace.line})
    v.nt(nr in table.values())
    v.label("named-here" if nr in table.values() else "named-elsewhere-only")
    return v


def enum_ace_numbers(tier, shard, nshards):
    from lib import gen as G

    idx = 0
    for platform in ("ios", "nxos"):
        for version in VERSIONS:
            for proto in PROTOS:
                for nr in G.named_anywhere():
                    if idx % nshards == shard:
                        yield {"platform": platform, "version": version, "proto": proto, "nr": nr}
                    idx += 1


def judge_proto_switch(case) -> Verdict:
    """Port.protocol = other: the number stays, the rendered token belongs to the other protocol's table."""
    from cisco_acl import Port
    from cisco_acl.port_name import PortName

    v = Verdict()
    platform, proto, name, version = case["platform"], case["proto"], case["name"], case.get("version", "0")
    other = "udp" if proto == "tcp" else "tcp"
    nr = PortName(proto, platform, version).names()[name]
    v.nt()
    v.label(f"{proto}->{other}")
    for port_nr in (False, True):
        port = Port(f"eq {name}", platform=platform, protocol=proto, version=version, port_nr=port_nr)
        _ = port.line
        port.protocol = other
        table = PortName(other, platform, version).names()
        tok = port.line.split()[-1] if port.line else ""
        if port.ports != [nr]:
            v.fail("protoswitch:number-changed", {"case": case, "ports": port.ports[:4], "port_nr": port_nr})
        elif not tok.isdigit() and table.get(tok) != nr:
            v.fail("protoswitch:renders-name-of-other-protocol", {"case": case, "line": port.line})
        elif Port(port.line, platform=platform, protocol=other, version=version).ports != [nr]:
            v.fail("protoswitch:rendered-text-rereads-differently", {"case": case, "line": port.line})
    return v


def enum_proto_switch(tier, shard, nshards):
    from cisco_acl.port_name import PortName

    idx = 0
    for platform in PLATFORMS:
        for version in ("0", "15.2(02)SY"):
            for proto in PROTOS:
                for name in sorted(PortName(proto, platform, version).names()):
                    if idx % nshards == shard:
                        yield {"platform": platform, "version": version, "proto": proto, "name": name}
                    idx += 1


def judge_tables_are_copies(case) -> Verdict:
    """Editing the dict returned by names() / ports() must not change what the library accepts."""
    from cisco_acl import Port
    from cisco_acl.port_name import PortName, all_known_names

    v = Verdict()
    v.nt()
    v.label("returned-tables")
    pn = PortName(case["proto"], case["platform"], case["version"])
    before = dict(pn.names())
    known_before = list(all_known_names())
    got = pn.names()
    first = sorted(got)[0]
    got["zz-private-alias"] = 8080
    got.pop(first)
    rev = pn.ports()
    rev[8080] = "zz-private-alias"
    after = PortName(case["proto"], case["platform"], case["version"]).names()
    if after != before or list(all_known_names()) != known_before:
        v.fail("tables:caller-edit-of-returned-dict-changes-the-library", {"case": case, "lost": sorted(set(before) - set(after))[:3],
                                                                          "gained": sorted(set(after) - set(before))[:3]})
        # repair the shared table so that later cases of this process are judged on the real tables
        live = pn.names()
        live.clear()
        live.update(before)
    try:
        ok = Port(f"eq {first}", platform=case["platform"], protocol=case["proto"], version=case["version"]).ports == [before[first]]
    except ValueError:
        ok = False
    if not ok:
        v.fail("tables:name-no-longer-accepted-after-caller-edit", {"case": case, "name": first})
    return v


def enum_tables(tier, shard, nshards):
    idx = 0
    for platform in PLATFORMS:
        for version in VERSIONS:
            for proto in PROTOS:
                if idx % nshards == shard:
                    yield {"platform": platform, "version": version, "proto": proto}
                idx += 1


SUBS = [
    Sub("protocol-switch", judge_proto_switch, enum=enum_proto_switch, quick=1, thorough=1, exhaustive=True, exhaustive_quick=True),
    Sub("returned-tables", judge_tables_are_copies, enum=enum_tables, quick=1, thorough=1, shards_quick=1, shards_thorough=1,
        exhaustive=True, exhaustive_quick=True),
    Sub("ace-numbers", judge_ace_number, enum=enum_ace_numbers, quick=1, thorough=1, exhaustive=True, exhaustive_quick=True),
    Sub("switch", judge_switch, enum=enum_switch, quick=1, thorough=1, exhaustive=True, exhaustive_quick=True),
    Sub("names", judge_name, enum=enum_names, quick=1, thorough=1, exhaustive=True, exhaustive_quick=True),
    Sub("must", judge_must, enum=enum_must, quick=1, thorough=1, shards_quick=4, shards_thorough=4,
        exhaustive=True, exhaustive_quick=True),
    Sub("vocab", judge_vocab, enum=enum_vocab, quick=1, thorough=1, shards_quick=4, shards_thorough=4,
        exhaustive=True, exhaustive_quick=True),
    Sub("numbers", judge_number, enum=enum_numbers, quick=1, thorough=1, shards_quick=16, shards_thorough=32,
        exhaustive=True, exhaustive_quick=True, minimise=False),
    Sub("protocols", judge_protocol, enum=enum_protocols, quick=1, thorough=1, shards_quick=8, shards_thorough=8,
        exhaustive=True, exhaustive_quick=True),
    Sub("native-proto", judge_native_proto, enum=enum_native_proto, quick=1, thorough=1, shards_quick=1,
        shards_thorough=1, exhaustive=True, exhaustive_quick=True),
]

MANIFEST = {
    "technique": "exhaustive enumeration of the finite name/number domain (sharded over 16 processes) against frozen Cisco/IANA reference tables plus parse/render closure",
    "text": "exploration, exhaustive in both tiers: every (platform, version, protocol, name) of the library's tables, every port number 1..65535 per table, all 256 protocol numbers and every protocol name per platform and switch are enumerated; numbers are judged against an embedded reference table, closure against the library itself",
    "note": "trusted: lib/reftables.py (typed in from Cisco command references and IANA); names unknown to the reference are counted not failed; both tiers enumerate the whole domain",
}
