"""C01 Parsing an ACE keeps its meaning (fields and re-rendered text)."""
from __future__ import annotations

from hypothesis import strategies as st

from lib import gen as G
from lib import refsem as R
from lib.harness import HarnessError, Invalid, Sub, Verdict

PROPERTY = "C01"
LEVEL = "exploration"
RULE = ("cases: structured ACE records (action, protocol 0..255 as number or any accepted name, source / "
        "destination address in every spelling incl. non-contiguous wildcards up to 16 bits and host bits "
        "under the mask, five port operators with names or numbers, TCP flag / established / log / opaque "
        "option tokens, sequence 0..2^32-1, whitespace noise) x platform ios|nxos x version table x "
        "(port_nr, protocol_nr); oracle: lib/refsem.py reads the INPUT text (fields must agree) and the "
        "RENDERED text (same meaning, valid platform syntax, switches respected). Non-trivial: non-contiguous "
        "mask, host bits under the mask, named port/protocol, multi-port eq/neq, sequence prefix or flags; "
        "distinct by canonical record + configuration")
RULE += ". Directed classes added after the seeded-change rounds: same port expression on both sides with one side re-written after parsing; standard entries with every host spelling"
ASSUMPTIONS = ["lib/refsem.py is the Cisco meaning of ACE text (conventions in DESIGN.md 2.3)",
               "port / protocol name tables are read from the library at run time; C09 pins their numbers",
               "prefix expansion compared for k <= 10 non-contiguous bits, base+mask text compared above"]

VERSIONS = ["0", "0", "12.4", "15.2(02)SY", "16.09.06", "9.3(8)"]


def addr_agrees(v: Verdict, addr, ref: R.Addr, where: str, platform: str):
    if ref.kind == "group":
        if addr.type != "addrgroup" or addr.addrgroup != ref.name:
            v.fail(f"{where}:group-name", {"got": [addr.type, addr.addrgroup], "want": ref.name})
        return
    base, wild = ref.pair
    want_wc = f"{R.int2ip(base)} {R.int2ip(wild)}"
    if addr.wildcard != want_wc:
        v.fail(f"{where}:base-or-mask", {"got": addr.wildcard, "want": want_wc})
        return
    k = len(R.nc_bits(wild))
    if k <= 10:
        got = sorted((int(n.network_address), n.prefixlen) for n in addr.ipnets())
        if got != R.pair_prefixes(ref.pair):
            v.fail(f"{where}:address-set", {"want": want_wc, "got_n": len(got)})


def port_agrees(v: Verdict, port, ref, where: str):
    if ref is None:
        if port.line or port.ports:
            v.fail(f"{where}:port-invented", {"got": port.line})
        return
    if not port.line:
        v.fail(f"{where}:port-lost", {"want": [ref.op, list(ref.operands)]})
        return
    if port.operator != ref.op or R.iv_from_values(port.ports) != ref.ivs:
        v.fail(f"{where}:port-set", {"got": port.line, "want": [ref.op, list(ref.operands)]})


def judge(case) -> Verdict:
    from cisco_acl import Ace

    rec, platform, version = case["rec"], case["platform"], case.get("version", "0")
    port_nr, protocol_nr = bool(case.get("port_nr")), bool(case.get("protocol_nr"))
    if platform not in ("ios", "nxos"):
        raise Invalid()
    G.validate_rec(rec, platform)
    try:
        text = G.render_ace(rec, platform, version)
        want = G.rec_rule(rec)
    except (KeyError, ValueError, TypeError, IndexError) as ex:
        raise Invalid() from ex
    names = G.names_fn(platform, version)
    try:
        ref = R.read_ace(text, platform, names, G.lib_proto_any())
    except R.RefError as ex:
        raise Invalid() from ex  # minimiser left the grammar
    if ref.meaning() != want.meaning() or ref.seq != want.seq:
        raise HarnessError(f"reference reader disagrees with the generator on {text!r}")
    v = Verdict()
    srck, dstk = G.label_addr(rec["src"]), G.label_addr(rec["dst"])
    named = any(not t.isdigit() for side in ("sp", "dp") if rec.get(side)
                for t in G.render_port(rec[side], names(rec["proto"]) if rec["proto"] in (6, 17) else {}).split()[1:])
    v.label(f"src={srck}", f"dst={dstk}", f"{platform}",
            *[f"op={rec[s]['op']}" for s in ("sp", "dp") if rec.get(s)])
    hostbits = any(a["k"] in ("wild", "prefix", "allones") and a["b"] & a["w"] for a in (rec["src"], rec["dst"]))
    multi = any(rec.get(s) and rec[s]["op"] in ("eq", "neq") and len(rec[s]["v"]) > 1 for s in ("sp", "dp"))
    v.nt(G.rec_nc(rec) or hostbits or named or multi or bool(rec.get("seq")) or bool(rec.get("flags"))
         or not G.proto_token(rec, platform).isdigit())
    if hostbits:
        v.label("hostbits-under-mask")
    if G.rec_nc(rec):
        v.label("non-contiguous")
    if named:
        v.label("named-port")

    kw = dict(platform=platform, version=version, port_nr=port_nr, protocol_nr=protocol_nr)
    try:
        ace = Ace(text, **kw)
    except (ValueError, TypeError) as ex:
        v.fail("parse:valid-line-rejected", {"text": text, "kw": kw, "error": f"{type(ex).__name__}: {ex}"[:300]})
        return v
    # ---- meaning of the parsed object == meaning of the input text
    if ace.action != ref.action:
        v.fail("fields:action", {"text": text, "got": ace.action})
    if ace.protocol.number != ref.proto:
        v.fail("fields:protocol", {"text": text, "got": ace.protocol.number, "want": ref.proto})
    if ace.sequence != ref.seq:
        v.fail("fields:sequence", {"text": text, "got": ace.sequence, "want": ref.seq})
    addr_agrees(v, ace.srcaddr, ref.src, "fields:src", platform)
    addr_agrees(v, ace.dstaddr, ref.dst, "fields:dst", platform)
    port_agrees(v, ace.srcport, ref.sport, "fields:srcport")
    port_agrees(v, ace.dstport, ref.dport, "fields:dstport")
    if tuple(ace.option.flags) != ref.nonlog:
        v.fail("fields:flags", {"text": text, "got": ace.option.flags, "want": list(ref.nonlog)})
    if tuple(ace.option.logs) != ref.logs:
        v.fail("fields:logs", {"text": text, "got": ace.option.logs, "want": list(ref.logs)})
    if ace.type != "extended":
        v.fail("fields:type", {"text": text, "got": ace.type})
    if v.fails:
        for i, (b, d) in enumerate(v.fails):
            if isinstance(d, dict):
                d.setdefault("text", text)
                d.setdefault("kw", kw)
        return v
    # ---- meaning of the rendered line, read independently, strict platform syntax
    out = ace.line
    try:
        again = R.read_ace(out, platform, names, G.lib_proto_native(platform), strict=True)
    except R.RefError as ex:
        v.fail("render:not-valid-platform-syntax", {"text": text, "rendered": out, "kw": kw, "why": str(ex)[:200]})
        return v
    if again.meaning() != ref.meaning() or again.seq != ref.seq:
        v.fail("render:meaning-changed", {"text": text, "rendered": out, "kw": kw})
    toks = out.split()
    if port_nr:
        for spec_side, ps in (("src", again.sport), ("dst", again.dport)):
            pass
        # every operand token after an operator must be numeric
        i = 0
        while i < len(toks):
            if toks[i] in R.OPERATORS:
                j = i + 1
                while j < len(toks) and (toks[j].isdigit() or toks[j] in names(ref.proto if ref.proto in (6, 17) else 6)):
                    if not toks[j].isdigit():
                        v.fail("render:port_nr-keeps-name", {"text": text, "rendered": out, "kw": kw})
                    j += 1
                i = j
            else:
                i += 1
    ptok = toks[2] if again.seq else toks[1]
    has_port = bool(again.sport or again.dport)
    if protocol_nr and not has_port and not ptok.isdigit():
        v.fail("render:protocol_nr-keeps-name", {"text": text, "rendered": out, "kw": kw})
    if not protocol_nr and ptok.isdigit() and int(ptok) in G.lib_proto_native(platform).values():
        v.fail("render:known-protocol-as-number", {"text": text, "rendered": out, "kw": kw})
    # ---- the parsed sides are separate objects: re-writing one port condition leaves the other side as parsed
    if ref.sport and ref.dport and not v.fails:
        side = "srcport" if case.get("edit_side", 0) % 2 == 0 else "dstport"
        keep = ace.dstport if side == "srcport" else ace.srcport
        want = ref.dport if side == "srcport" else ref.sport
        getattr(ace, side).line = "eq 5060"
        port_agrees(v, keep, want, f"fields:{'dstport' if side == 'srcport' else 'srcport'}:after-editing-the-other-side")
        v.label("twin-port-expressions" if ref.sport.ivs == ref.dport.ivs else "both-sides-ported")
    return v


@st.composite
def case_st(draw, tier):
    platform = draw(st.sampled_from(["ios", "nxos"]))
    version = draw(st.sampled_from(VERSIONS))
    kmax = draw(st.sampled_from([2, 4, 4, 8, 16]))
    rec = draw(G.ace_st(platform, version, kmax=kmax, groups=True, members=False, empty_sets=True, opaque=True))
    return {"rec": rec, "platform": platform, "version": version, "port_nr": draw(st.booleans()),
            "protocol_nr": draw(st.booleans())}


# --------------------------------------------------------------------------------------- standard ACEs
def judge_standard(case) -> Verdict:
    """IOS standard ACE: permit|deny <source> [log]; protocol ip, destination any."""
    from cisco_acl import Ace

    s = case
    if s["form"] not in ("host", "bare", "wild", "any", "prefix") or s["action"] not in ("permit", "deny"):
        raise Invalid()
    b, w = s["b"] & R.ALL1, s["w"] & R.ALL1
    if len(R.nc_bits(w)) > 8 or (s["form"] == "prefix" and not R.is_contiguous(w)):
        raise Invalid()
    addr = {"host": f"host {R.int2ip(b)}", "bare": R.int2ip(b), "wild": f"{R.int2ip(b)} {R.int2ip(w)}", "any": "any",
            "prefix": f"{R.int2ip(b)}/{32 - bin(w).count('1')}"}[s["form"]]
    pair = {"host": (b, 0), "bare": (b, 0), "any": (0, R.ALL1)}.get(s["form"], R.mk_pair(b, w))
    logs = [s["log"]] if s.get("log") else []
    toks = [str(s["seq"])] if s.get("seq") else []
    toks += [s["action"], addr] + logs
    gap = "  " if s.get("noise") else " "
    text = gap.join(toks) + (" " if s.get("noise") else "")
    v = Verdict()
    v.label(f"standard-{s['form']}")
    v.nt(s["form"] in ("bare", "wild", "prefix") or bool(s.get("seq")))
    try:
        ace = Ace(text, platform="ios")
    except (ValueError, TypeError) as ex:
        v.fail("standard:valid-line-rejected", {"text": text, "error": str(ex)[:200]})
        return v
    if ace.type != "standard":
        v.fail("standard:type", {"text": text, "type": ace.type})
    if ace.action != s["action"] or ace.sequence != (s.get("seq") or 0) or ace.protocol.number != 0:
        v.fail("standard:action-sequence-protocol", {"text": text, "got": [ace.action, ace.sequence, ace.protocol.number]})
    want_wc = f"{R.int2ip(pair[0])} {R.int2ip(pair[1])}"
    if ace.srcaddr.wildcard != want_wc:
        v.fail("standard:source-address", {"text": text, "got": ace.srcaddr.wildcard, "want": want_wc})
    elif sorted((int(n.network_address), n.prefixlen) for n in ace.srcaddr.ipnets()) != R.pair_prefixes(pair):
        v.fail("standard:source-address-set", {"text": text})
    if ace.dstaddr.wildcard != "0.0.0.0 255.255.255.255" or ace.srcport.line or ace.dstport.line:
        v.fail("standard:destination-or-ports", {"text": text, "dst": ace.dstaddr.line})
    if ace.option.logs != logs or ace.option.flags:
        v.fail("standard:options", {"text": text, "got": ace.option.line})
    if v.fails:
        return v
    out = ace.line
    try:
        again = R.read_ace(out, "ios", G.names_fn("ios"), G.lib_proto_any(), strict=True, standard=True)
    except R.RefError as ex:
        v.fail("standard:render-not-valid-syntax", {"text": text, "rendered": out, "why": str(ex)[:200]})
        return v
    if again.src.pair != pair or again.action != s["action"] or again.seq != (s.get("seq") or 0) or again.options != tuple(logs):
        v.fail("standard:render-meaning-changed", {"text": text, "rendered": out})
    return v


@st.composite
def standard_st(draw, tier):
    form = draw(st.sampled_from(["host", "bare", "wild", "wild", "any", "prefix"]))
    w = draw(G.wildmask_st(4)) if form == "wild" else (1 << draw(st.integers(0, 32))) - 1
    return {"form": form, "b": draw(G.base_st()), "w": w, "action": draw(st.sampled_from(["permit", "deny"])),
            "seq": draw(st.sampled_from([0, 0, 10, 4294967295])), "log": draw(st.sampled_from(["", "", "log", "log-input"])),
            "noise": draw(st.booleans())}


SUBS = [
    Sub("ace", judge, strategy=case_st, quick=15000, thorough=300000, shards_thorough=64),
    Sub("standard", judge_standard, strategy=standard_st, quick=2000, thorough=40000),
]

# coverage-guided twins (fuzz/fuzz_hyp.py): atheris mutates the bytes Hypothesis decodes into cases of the same strategy
SUBS += [__import__("lib.harness", fromlist=["x"]).cov_sub('C01', s_) for s_ in list(SUBS) if s_.name in ('ace',)]

MANIFEST = {
    "technique": "property-based differential testing: Hypothesis-generated ACE records in every spelling, library fields and re-rendered text compared with an independent reference reader (refsem)",
    "text": "exploration: no disagreement between the library and an independent reader of Cisco ACE syntax over thousands (quick) / hundreds of thousands (thorough) of generated lines covering every address spelling, non-contiguous masks up to 16 bits, all five port operators with names or numbers, flags/log/opaque options, sequence prefixes and whitespace noise, on both platforms, six version strings and all four switch settings",
    "note": "trusted: lib/refsem.py (naive reader, shares no code with cisco_acl) and the any-of flag / 1..65535 port conventions of DESIGN.md 2.3; name tables come from the library (pinned by C09)",
}
MANIFEST["engine"] = MANIFEST.get("engine", "hypothesis") + " + atheris (coverage-guided twins of the Hypothesis sub-checks, fuzz/fuzz_hyp.py: 2 jobs x 8 s quick, 8 jobs x 200 s thorough)"
MANIFEST["technique"] += "; plus coverage-guided fuzzing of the same strategies (atheris/libFuzzer mutates the byte stream Hypothesis decodes into cases, the same oracle runs inside the target, findings are re-judged outside it)"
