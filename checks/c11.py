"""C11 Shadow answers are exact on group-free entries; ACL report follows its spec."""
from __future__ import annotations

from hypothesis import strategies as st

from lib import acehelp as A
from lib import gen as G
from lib import refsem as R
from lib.harness import Invalid, Sub, Verdict

PROPERTY = "C11"
LEVEL = "exploration"
RULE = ("cases: ordered pairs of group-free ACE records with non-empty port sets (bottom derived from top), all "
        "protocols, contiguous and non-contiguous wildcards (k<=4), five port operators, subsets of the six TCP "
        "flags, log tokens, asked with the 5 skip lists; and ACLs of 2..10 such entries (duplicates on purpose) "
        "for the report. Oracle: answer == (same action and exact inclusion and no skipped kind involved); "
        "report == model built from the oracle's pairwise relation (each shadowed ACE once, under the first "
        "covering ACE). Non-trivial: oracle answer True (pairs), report non-empty (ACLs); both directions are "
        "counted as classes")
RULE += ". Directed classes added after the seeded-change rounds: port_focus pairs; related 2^8..2^9 expansions; numeric rendering switches; standard-form entries; reports on ACLs numbered in any order, grouped by headings, with an entry appended afterwards"
ASSUMPTIONS = ["refsem packet semantics; one sliver is left unjudged and counted: top port condition covering "
               "all of 1..65535 while bottom has none (whether port 0 exists is not fixed by the property)"]


def judge_pair(case) -> Verdict:
    top, bottom, platform = case["top"], case["bottom"], case["platform"]
    if platform not in ("ios", "nxos") or G.rec_has_group(top) or G.rec_has_group(bottom):
        raise Invalid()
    G.validate_rec(top, platform)
    G.validate_rec(bottom, platform)
    try:
        rt, rb = G.rec_rule(top), G.rec_rule(bottom)
    except (KeyError, IndexError, TypeError) as ex:
        raise Invalid() from ex
    if R.rule_is_empty(rt) or R.rule_is_empty(rb):
        raise Invalid()
    if any(f not in R.TCP_FLAGS for r in (top, bottom) for f in r.get("flags") or []):
        raise Invalid()
    v = Verdict()
    if A.ambiguous(bottom, top):
        v.exclude("port-universe-sliver")
        return v
    nr = case.get("nr") or [False] * 4
    if len(nr) != 4 or not all(isinstance(x, bool) for x in nr):
        raise Invalid()
    # the numeric rendering switches of either entry are spelling only
    def build(rec, std, **kw):
        if not std:
            return A.build_ace(rec, platform, **kw)
        # the entry written in the standard form 'action source [log]' (matches every protocol and destination)
        from cisco_acl import Ace

        src = rec["src"]
        if rec["proto"] != 0 or rec.get("sp") or rec.get("dp") or rec.get("flags") or rec.get("opq") or rec["dst"]["k"] != "any" \
                or src["k"] not in ("any", "host", "prefix", "wild") or not R.is_contiguous(src["w"]) or platform != "ios" \
                or not G.addr_is_native(src, platform):
            raise Invalid()
        ace = Ace(" ".join([rec["action"], G.render_addr(src, platform)] + list(rec.get("logs") or [])), platform=platform)
        if ace.type != "standard":
            raise Invalid()
        return ace

    t = build(top, bool(case.get("std_top")), protocol_nr=nr[0], port_nr=nr[1])
    b = build(bottom, bool(case.get("std_bottom")), protocol_nr=nr[2], port_nr=nr[3])
    if case.get("std_top") or case.get("std_bottom"):
        v.label("standard-form-entry")
    for skip in A.SKIPS:
        want = A.oracle_cover(bottom, top, skip)
        got = b.shadow_of(t, skip=skip)
        if got is not want and got != want:
            direction = "missed-shadow" if want else "false-shadow"
            sk = "+".join(skip) if skip else "none"
            v.fail(f"pair:{direction}:skip={sk}", {"top": t.line, "bottom": b.line, "skip": skip, "platform": platform,
                                                   "library": got, "oracle": want})
            break
    want0 = A.oracle_cover(bottom, top, None)
    v.nt(want0)
    v.label("oracle-true" if want0 else "oracle-false")
    if G.rec_nc(top) or G.rec_nc(bottom):
        v.label("non-contiguous")
    return v


@st.composite
def pair_st(draw, tier):
    platform = draw(st.sampled_from(["ios", "nxos"]))
    kmax = draw(st.sampled_from([4] * 24 + [7] * 5 + [9]))  # large expansions: the cover test may switch strategy
    top = draw(G.ace_st(platform, kmax=kmax, groups=False, empty_sets=False, seq=False, noise=False, established=False))
    bottom = draw(G.mutate_ace(top, platform, kmax=kmax, groups=False, empty_sets=False, established=False))
    if draw(st.integers(0, 9)) == 0:
        top, bottom = bottom, top
    if draw(st.sampled_from(range(6))) == 0:
        top, bottom = draw(G.flag_focus(top, bottom, established=False))
    if draw(st.integers(0, 39)) == 21:
        # two large expansions (2^8..2^9 prefixes each) related by a few low bits: above every size at which a cover
        # test could switch strategy
        side = draw(st.sampled_from(["src", "dst"]))
        hi = ((1 << draw(st.sampled_from([8, 9]))) - 1) << draw(st.sampled_from([8, 9, 16]))
        base = G.POOL_BASE & ~hi & R.ALL1
        for rec in (top, bottom):
            w = hi | ((1 << draw(st.integers(0, 4))) - 1)
            rec[side] = {"k": "wild", "b": (base | draw(st.integers(0, 7))) & ~w & R.ALL1, "w": w}
        bottom["action"] = top["action"]
    if draw(st.sampled_from(range(6))) == 0:
        # port sets equal or one port apart at an end of a run / of the port space, in every spelling
        top, bottom = draw(G.port_focus(top, bottom, platform))
    # usual Cisco order 'log <other options>': the log keyword in front of the flag tokens
    for rec in (top, bottom):
        if rec.get("flags") and draw(st.sampled_from([True, False, False])):
            rec["logs"] = [draw(st.sampled_from(["log", "log-input"]))]
            rec["lf"] = True
    case = {"top": top, "bottom": bottom, "platform": platform}
    if draw(st.sampled_from(range(3))) == 1:
        case["nr"] = [draw(st.booleans()) for _ in range(4)]
    if platform == "ios" and draw(st.integers(0, 11)) == 6:
        # one side (or both) in the standard form: ip, every destination, one contiguous source
        which = draw(st.sampled_from(["bottom", "bottom", "top", "both"]))
        for name, rec in (("top", top), ("bottom", bottom)):
            if which in (name, "both"):
                src = rec["src"]
                if src["k"] == "group" or not R.is_contiguous(src["w"]):
                    src = {"k": "prefix", "b": src.get("b", 0) & ~0xFF & R.ALL1, "w": 0xFF}
                rec.update(proto=0, pn=0, sp=None, dp=None, flags=[], opq=[], dst={"k": "any", "b": 0, "w": R.ALL1},
                           src=G.native_addr(G.addr_pair(src), platform))
                rec.pop("lf", None)
                case["std_" + name] = True
        if draw(st.booleans()):
            bottom["action"] = top["action"]
        if which == "bottom" and draw(st.booleans()):
            # an extended entry above that holds the source of the standard-form entry but names ONE destination
            top.update(proto=0, pn=0, sp=None, dp=None, flags=[], action=bottom["action"],
                       src=draw(st.sampled_from([{"k": "any", "b": 0, "w": R.ALL1}, dict(bottom["src"])])),
                       dst=G.native_addr((draw(G.base_st()), draw(st.sampled_from([0, 0xFF]))), platform))
            top["dst"]["b"] &= ~top["dst"]["w"] & R.ALL1
            top.pop("lf", None)
    return case


# --------------------------------------------------------------------------------------- report
def model_report(recs, lines, skip):
    shading, shadow = {}, set()
    for i, top in enumerate(recs):
        for j in range(i + 1, len(recs)):
            if A.oracle_cover(recs[j], top, skip):
                if lines[j] not in shadow:
                    shading.setdefault(lines[i], []).append(lines[j])
                shadow.add(lines[j])
    return shading


def judge_report(case) -> Verdict:
    from cisco_acl import Acl

    recs, platform, skip = case["aces"], case["platform"], case.get("skip")
    if platform not in ("ios", "nxos") or not recs:
        raise Invalid()
    for r in recs:
        G.validate_rec(r, platform)
        try:
            rr = G.rec_rule(r)
        except (KeyError, IndexError, TypeError) as ex:
            raise Invalid() from ex
        if G.rec_has_group(r) or R.rule_is_empty(rr) or any(f not in R.TCP_FLAGS for f in r.get("flags") or []):
            raise Invalid()
    v = Verdict()
    for i, top in enumerate(recs):
        for bot in recs[i + 1:]:
            if A.ambiguous(bot, top):
                v.exclude("port-universe-sliver")
                return v
    from cisco_acl import Ace

    late = case.get("late") or []
    for r in late:
        G.validate_rec(r, platform)
        if G.rec_has_group(r) or R.rule_is_empty(G.rec_rule(r)) or any(f not in R.TCP_FLAGS for f in r.get("flags") or []):
            raise Invalid()
    body = [G.render_ace(r, platform, noise=False) for r in recs]
    heads = sorted(set(h % (len(body) + 1) for h in case.get("headings") or []))
    if heads:
        # the ACL grouped by remark headings; the report looks inside the blocks, in rendered order
        for n_, h in enumerate(reversed(heads)):
            body.insert(h, f"remark = H{len(heads) - n_}")
        acl = Acl(A.acl_header(platform) + "\n" + "\n".join(" " + s for s in body), platform=platform, group_by="= ")
        v.label("grouped-by-headings")
    else:
        acl = Acl(A.acl_header(platform) + "\n" + "\n".join(" " + s for s in body), platform=platform)
    for r in late:
        # an entry appended to the built ACL is the last one, whatever blocks stand before it
        acl.append(Ace(G.render_ace(r, platform, noise=False), platform=platform))
    recs = list(recs) + list(late)
    for i, top in enumerate(recs):
        for bot in recs[i + 1:]:
            if A.ambiguous(bot, top):
                v.exclude("port-universe-sliver")
                return v
    edit = case.get("element_edit")
    if edit:
        # the text of the ACL was read; then ONE element of one entry is re-written through that element's own setter
        # (source address or destination port); the next report is about the entries as they are now
        _ = acl.line
        aces_now = [o for o in A.flat_items(acl.items) if isinstance(o, Ace)]
        if len(aces_now) != len(recs):
            raise Invalid()
        i = edit[0] % len(recs)
        new = dict(recs[i])
        if edit[1] == "src":
            G.validate_addr(edit[2])
            if edit[2]["k"] == "group" or not G.addr_is_native(edit[2], platform):
                raise Invalid()
            new["src"] = edit[2]
            aces_now[i].srcaddr.line = G.render_addr(edit[2], platform)
        elif edit[1] == "dp" and new["proto"] in (6, 17) and new.get("dp"):
            G.validate_port(edit[2], platform)
            if edit[2] is None or not R.port_set(edit[2]["op"], edit[2]["v"]):
                raise Invalid()
            new["dp"] = dict(edit[2], nm=[-1] * len(edit[2]["v"]))
            aces_now[i].dstport.line = G.render_port(new["dp"], {})
        else:
            edit = None
        if edit:
            recs = list(recs)
            recs[i] = new
            v.label("element-edited-after-the-text-was-read")
            for a_i, top in enumerate(recs):
                for bot in recs[a_i + 1:]:
                    if A.ambiguous(bot, top):
                        v.exclude("port-universe-sliver")
                        return v
    lines = [o.line for o in A.flat_items(acl.items) if isinstance(o, Ace)]
    if len(lines) != len(recs):
        raise Invalid()
    if any(not G.addr_is_native(r[s_], platform) for r in recs for s_ in ("src", "dst")):
        raise Invalid()
    before = acl.line
    # earlier queries with OTHER skip lists on the same object must not influence this one
    for k in case.get("warmup") or []:
        other = A.SKIPS[k % len(A.SKIPS)]
        got_o = acl.shading(other)
        want_o = model_report(recs, lines, other)
        if got_o != want_o:
            v.fail("report:shading-differs-from-spec:repeated-query", {"acl": before, "skip": other, "library": got_o,
                                                                        "spec": want_o, "earlier": case.get("warmup")})
            return v
    want = model_report(recs, lines, skip)
    got = acl.shading(skip)
    if got != want:
        v.fail("report:shading-differs-from-spec", {"acl": before, "skip": skip, "library": got, "spec": want})
    flat = acl.shadow_of(skip)
    if flat != [s for ls in want.values() for s in ls]:
        v.fail("report:shadow_of-differs-from-spec", {"acl": before, "skip": skip, "library": flat, "spec": want})
    if acl.line != before:
        v.fail("report:query-mutates-acl", {"before": before, "after": acl.line})
    seen = [s for ls in got.values() for s in ls]
    v.nt(bool(want))
    v.label("report-nonempty" if want else "report-empty", f"n={len(recs)}")
    if len(set(lines)) != len(lines):
        v.label("duplicate-lines")
    _ = seen
    return v


@st.composite
def report_st(draw, tier):
    platform = draw(st.sampled_from(["ios", "nxos"]))
    kw = dict(kmax=3, groups=False, empty_sets=False, seq=False, noise=False, established=False)
    pool = [draw(G.ace_st(platform, **kw)) for _ in range(draw(st.integers(1, 3)))]
    recs = []
    for _ in range(draw(st.integers(2, 10))):
        how = draw(st.integers(0, 9))
        if how < 2:
            recs.append(dict(draw(st.sampled_from(pool))))
        elif how < 8:
            recs.append(draw(G.mutate_ace(draw(st.sampled_from(pool)), platform, kmax=3, established=False)))
        else:
            recs.append(draw(G.ace_st(platform, **kw)))
    # native spelling: the report is keyed by rendered text, which is only stable for native input
    # (a foreign spelling such as 0.0.0.0/0 on IOS converges after one re-parse, see C06)
    recs = [G.to_native(r, platform) for r in recs]
    # sequence numbers: none, ascending, or in any order (the report follows the position in the ACL, whatever
    # numbers the entries carry), all entries numbered or only some
    mode = draw(st.sampled_from(["none", "none", "ascending", "any-order", "any-order", "some"]))
    if mode != "none":
        nums = draw(st.lists(st.integers(1, 400), min_size=len(recs), max_size=len(recs), unique=True))
        if mode == "ascending":
            nums.sort()
        for r, n in zip(recs, nums):
            r["seq"] = n if mode != "some" or draw(st.booleans()) else 0
    case = {"aces": recs, "platform": platform, "skip": draw(st.sampled_from(A.SKIPS)),
            "warmup": draw(st.lists(st.integers(0, 4), max_size=3))}
    if draw(st.sampled_from(range(4))) == 2:
        case["headings"] = draw(st.lists(st.integers(0, 10), min_size=1, max_size=3))
    if draw(st.sampled_from(range(4))) == 3:
        which = draw(st.sampled_from(["src", "src", "dp"]))
        if which == "src":
            val = G.native_addr(G.addr_pair(draw(G.addr_st(kmax=2, groups=False))), platform)
        else:
            val = draw(G.port_st(platform, None, False, False, False))
        case["element_edit"] = [draw(st.integers(0, 9)), which, val]
    if draw(st.sampled_from(range(4))) == 1:
        # appended afterwards: a copy or a narrowed copy of an entry that is already there (so something covers it)
        base = draw(st.sampled_from(recs))
        twin = dict(base, seq=0) if draw(st.booleans()) else G.to_native(
            dict(draw(G.mutate_ace(base, platform, kmax=3, established=False)), seq=0), platform)
        case["late"] = [twin]
    return case


SUBS = [
    Sub("pairs", judge_pair, strategy=pair_st, quick=12000, thorough=250000, shards_thorough=64),
    Sub("report", judge_report, strategy=report_st, quick=1500, thorough=20000),
]

# coverage-guided twins (fuzz/fuzz_hyp.py): atheris mutates the bytes Hypothesis decodes into cases of the same strategy
SUBS += [__import__("lib.harness", fromlist=["x"]).cov_sub('C11', s_) for s_ in list(SUBS) if s_.name in ('pairs',)]

MANIFEST = {
    "technique": "property-based differential testing: Ace.shadow_of compared in both directions with an exact inclusion oracle (refsem) on derived pairs; Acl.shading/shadow_of compared with a model report built from the oracle relation",
    "text": "exploration: both implication directions judged on thousands (quick) / 250 000 (thorough) group-free pairs x 5 skip lists, and the ACL-level report compared with the specification model on hundreds / 20 000 ACLs with deliberate duplicates, incl. repeated queries with other skip lists on the same object",
    "note": "trusted: lib/refsem.py; the sliver 'top port condition = all of 1..65535, bottom without ports' is excluded and counted; established is excluded here (C03 covers it for soundness)",
}
MANIFEST["engine"] = MANIFEST.get("engine", "hypothesis") + " + atheris (coverage-guided twins of the Hypothesis sub-checks, fuzz/fuzz_hyp.py: 2 jobs x 8 s quick, 8 jobs x 200 s thorough)"
MANIFEST["technique"] += "; plus coverage-guided fuzzing of the same strategies (atheris/libFuzzer mutates the byte stream Hypothesis decodes into cases, the same oracle runs inside the target, findings are re-judged outside it)"
