"""C07 Config-level extraction returns exactly the ACLs, bindings and group members."""
from __future__ import annotations

from hypothesis import strategies as st

from lib import gen as G
from lib import refsem as R
from lib.harness import Invalid, Sub, Verdict
from checks.c13 import member_text

PROPERTY = "C07"
LEVEL = "exploration"
RULE = ("cases: device configurations assembled from a shuffled list of sections - ACL sections (>= 1 body line, "
        "unique names, extended and a few standard), address-group sections (native member syntax, optional "
        "description), interface sections with 0..2 'ip access-group NAME in|out' lines (two different ACLs in "
        "and out, the same ACL on several interfaces, undefined ACL names), noise sections with nested "
        "indentation, global lines and '!' comment lines - on both platforms, indentation >= 1 differing per "
        "section, with a names filter (subset + unknown names) and optional group_by. Oracle: the expected "
        "result is known by construction (name, type, body as refsem rules and remarks in order, input / output "
        "interface sets, member networks per referencing address) and is compared with acls(), aces() and "
        "addrgroups(); metamorphic: re-indenting and inserting comment lines does not change the result. "
        "Non-trivial: >= 2 ACLs, or a binding, or a referenced group; distinct by canonical configuration")
RULE += ". Directed classes added after the seeded-change rounds: ACL names that are parts of one another (and '') in the filter; NX-OS 'any' members; sub-interface headings with a link type; repeated section headers"
ASSUMPTIONS = ["ACL sections have >= 1 body line and unique names; group names are unique; no nested group-object",
               "refsem reads the rendered ACL text; IOS group members are subnet masks, ACE addresses wildcards"]


def render_config(case, extra_indent: int = 0, comments: bool = False):
    platform = case["platform"]
    version = (case.get("opts") or {}).get("version", "0")  # port names are spelled for the version of the call
    out = []
    for sec in case["sections"]:
        ind = " " * (sec.get("ind", 1) + extra_indent)
        kind = sec["s"]
        if comments:
            out.append("!")
        if kind == "acl":
            acl = sec["acl"]
            out.append(G.acl_header(acl))
            for it in acl["items"]:
                out.append(ind + G.item_line(it, platform, version, noise=False))
        elif kind == "acl-cont":
            # the same ACL header a second time (running-config followed by a change snippet): entries continue
            out.append(G.acl_header(sec["acl"]))
            for it in sec["acl"]["items"]:
                out.append(ind + G.item_line(it, platform, version, noise=False))
        elif kind == "group":
            out.append(("object-group network " if platform == "ios" else "object-group ip address ") + sec["name"])
            if sec.get("desc"):
                out.append(ind + "description " + sec["desc"])
            for i, m in enumerate(sec["members"]):
                out.append(ind + member_text(tuple(m), platform, i + sec.get("style", 0),
                                             (sec.get("seqs") or [0])[i % len(sec.get("seqs") or [0])]))
        elif kind == "intf":
            out.append("interface " + sec["name"])
            lines = list(sec.get("extra") or [])
            for name, direction in sec.get("bind") or []:
                lines.insert(min(len(lines), sec.get("pos", 0)), f"ip access-group {name} {direction}")
            for ln in lines:
                out.append(ind + ln)
        elif kind == "noise":
            out.extend(_noise(sec["kind"], ind))
        elif kind == "comment":
            out.append("!" + sec.get("text", ""))
        else:
            raise Invalid()
    return "\n".join(out)


def _noise(kind, ind):
    if kind == "bgp":
        return ["router bgp 65000", ind + "router-id 1.1.1.1", ind + "address-family ipv4 unicast",
                ind + ind + "network 10.0.0.0/8", ind + ind + "redistribute static", ind + "neighbor 10.0.0.2",
                ind + ind + "remote-as 65001"]
    if kind == "vty":
        return ["line vty 0 4", ind + "access-class 10 in", ind + "transport input ssh"]
    if kind == "hostname":
        return ["hostname R1"]
    if kind == "globals":
        return ["ip route 0.0.0.0 0.0.0.0 10.0.0.1", "snmp-server community x RO", "ip access-list resequence A 10 10"]
    if kind == "classmap":
        return ["class-map match-any CM", ind + "match access-group name A1", "policy-map PM", ind + "class CM",
                ind + ind + "police 1000000"]
    raise Invalid()


def validate(case):
    if case.get("platform") not in ("ios", "nxos") or not isinstance(case.get("sections"), list):
        raise Invalid()
    names, gnames = set(), set()
    first = True
    for sec in case["sections"]:
        if not isinstance(sec, dict) or sec.get("s") not in ("acl", "acl-cont", "group", "intf", "noise", "comment"):
            raise Invalid()
        if sec["s"] == "acl-cont":
            G.validate_acl(sec["acl"])
            if sec["acl"]["name"] not in names or not sec["acl"]["items"] or sec["acl"]["platform"] != case["platform"]:
                raise Invalid()  # a continuation follows the section it continues
            continue
        if not isinstance(sec.get("ind", 1), int) or not 1 <= sec.get("ind", 1) <= 6:
            raise Invalid()
        if sec["s"] == "acl":
            G.validate_acl(sec["acl"])
            acl = sec["acl"]
            if acl["platform"] != case["platform"] or not acl["items"] or acl["name"] in names:
                raise Invalid()
            if acl.get("type", "extended") != "extended":
                raise Invalid()
            names.add(acl["name"])
        elif sec["s"] == "group":
            if (sec["name"] in gnames) != bool(sec.get("cont")) or not sec["members"] or " " in sec["name"]:
                raise Invalid()  # a repeated header continues its group (members are merged)
            gnames.add(sec["name"])
            for b, w in sec["members"]:
                if b & w or (case["platform"] == "ios" and (w == R.ALL1 or not R.is_contiguous(w))) or len(R.nc_bits(w)) > 4:
                    raise Invalid()
        elif sec["s"] == "intf":
            parts = (sec.get("name") or "").split(" ")
            if not parts[0] or len(parts) > 2 or (len(parts) == 2 and parts[1] not in ("point-to-point", "multipoint")):
                raise Invalid()  # a sub-interface heading may carry its link type
            for name, direction in sec.get("bind") or []:
                if direction not in ("in", "out") or not name or " " in name:
                    raise Invalid()
            dirs = [d for _, d in sec.get("bind") or []]
            if len(set(dirs)) != len(dirs):
                raise Invalid()  # a device keeps one ACL per direction
        first = False
    inames = [s["name"] for s in case["sections"] if s["s"] == "intf"]
    if len(set(inames)) != len(inames):
        raise Invalid()
    _ = first


def expected(case):
    """(acl list, group dict) by construction."""
    groups = {}
    for s in case["sections"]:
        if s["s"] == "group":
            groups.setdefault(s["name"], []).extend(tuple(m) for m in s["members"])
    binds = {}
    for s in case["sections"]:
        if s["s"] == "intf":
            for name, direction in s.get("bind") or []:
                binds.setdefault(name, {"in": set(), "out": set()})[direction].add("interface " + s["name"])
    acls = []
    for s in case["sections"]:
        if s["s"] != "acl":
            continue
        acl = s["acl"]
        more = [it for c in case["sections"] if c["s"] == "acl-cont" and c["acl"]["name"] == acl["name"] for it in c["acl"]["items"]]
        if more:
            acl = dict(acl, items=list(acl["items"]) + more)
        b = binds.get(acl["name"], {"in": set(), "out": set()})
        acls.append({"name": acl["name"], "type": "extended", "flat": G.flat_meaning(acl), "input": sorted(b["in"]),
                     "output": sorted(b["out"]),
                     "members": [[list(groups.get(it["rec"][side]["n"], [])) if it["rec"][side]["k"] == "group" else None
                                  for side in ("src", "dst")] for it in acl["items"] if it["t"] == "ace"]})
    return acls, groups


def _flat(items):
    from cisco_acl import AceGroup

    for it in items:
        if isinstance(it, AceGroup):
            yield from _flat(it.items)
        else:
            yield it


def _members_of(addr, platform):
    out = []
    for item in addr.items:
        got, _ = R._read_addr(item.line.split(), 0, platform, False)  # pylint: disable=protected-access
        out.append(got.pair)
    return out


def compare_acls(v: Verdict, case, got, want, where, detail):
    from cisco_acl import Ace

    platform = case["platform"]
    if [a.name for a in got] != [w["name"] for w in want]:
        v.fail(f"{where}:acl-list", dict(detail, got=[a.name for a in got], want=[w["name"] for w in want]))
        return
    for a, w in zip(got, want):
        d = dict(detail, acl=w["name"])
        if a.type != w["type"] or a.platform != platform:
            v.fail(f"{where}:type-or-platform", dict(d, got=[a.type, a.platform]))
        try:
            _, flat = G.read_flat(a.line, platform, (case.get("opts") or {}).get("version", "0"), strict=False)
        except R.RefError as ex:
            v.fail(f"{where}:acl-text-unreadable", dict(d, text=a.line, why=str(ex)[:200]))
            return
        if flat != w["flat"]:
            v.fail(f"{where}:entries-or-remarks-differ", dict(d, text=a.line))
            return
        if list(a.input) != w["input"] or list(a.output) != w["output"]:
            v.fail(f"{where}:interface-bindings", dict(d, got={"input": a.input, "output": a.output},
                                                       want={"input": w["input"], "output": w["output"]}))
        aces = [o for o in _flat(a.items) if isinstance(o, Ace)]
        if len(aces) != len(w["members"]):
            v.fail(f"{where}:ace-count", d)
            return
        for o, (ms, md) in zip(aces, w["members"]):
            for addr, wm, side in ((o.srcaddr, ms, "src"), (o.dstaddr, md, "dst")):
                gm = _members_of(addr, platform)
                if gm != (wm or []):
                    v.fail(f"{where}:group-members:{side}", dict(d, ace=o.line, got=[x.line for x in addr.items],
                                                                  want=[f"{R.int2ip(b)} {R.int2ip(x)}" for b, x in wm or []]))
                    return


def judge(case) -> Verdict:
    import cisco_acl

    validate(case)
    platform = case["platform"]
    config = render_config(case)
    if not config.strip():
        raise Invalid()
    names = case.get("names")
    group_by = case.get("group_by") or ""
    v = Verdict()
    want_acls, want_groups = expected(case)
    kw = dict(platform=platform)
    if group_by:
        kw["group_by"] = group_by
        # a heading becomes the name of its block, and names are limited to 100 characters (documented ValueError)
        if any(it["t"] == "rem" and it["text"].startswith(group_by) and len(it["text"]) > 100
               for sec in case["sections"] if sec["s"] in ("acl", "acl-cont") for it in sec["acl"]["items"]):
            raise Invalid()
    opts = case.get("opts") or {}
    for key in ("port_nr", "protocol_nr", "indent", "version", "max_ncwb"):
        if key in opts:
            kw[key] = opts[key]
    if not isinstance(kw.get("indent", " "), str) or kw.get("indent", " ").strip(" \t") or \
            kw.get("max_ncwb", 16) not in range(4, 31) or kw.get("version", "0") not in ("0", "15.2(02)SY", "16.09.06", "9.3(8)"):
        raise Invalid()
    detail = {"platform": platform, "config": config, "names": names, "group_by": group_by, "kwargs": opts}
    got = cisco_acl.acls(config, names=names, **kw) if names is not None else cisco_acl.acls(config, **kw)
    want = [w for w in want_acls if names is None or w["name"] in names]
    compare_acls(v, case, got, want, "acls", detail)
    for a in got:
        if "indent" in opts and (a.indent != opts["indent"] or any(not ln.startswith(opts["indent"]) for ln in a.line.split("\n")[1:])):
            v.fail("acls:indent-kwarg-not-applied", dict(detail, acl=a.line))
        if bool(a.port_nr) != bool(opts.get("port_nr")) or bool(a.protocol_nr) != bool(opts.get("protocol_nr")):
            v.fail("acls:switch-kwarg-not-applied", dict(detail, got=[a.port_nr, a.protocol_nr]))
        if str(a.version).lower() != str(opts.get("version", "0")).lower():
            v.fail("acls:version-kwarg-not-applied", dict(detail, got=str(a.version)))
        if opts.get("port_nr") or opts.get("protocol_nr"):
            for ln in a.line.split("\n")[1:]:
                toks = ln.split()
                if toks and toks[0].isdigit():
                    toks = toks[1:]
                if not toks or toks[0] == "remark":
                    continue
                if opts.get("port_nr"):
                    for i, t in enumerate(toks):
                        if t in R.OPERATORS:
                            j = i + 1
                            while j < len(toks) and (toks[j].isdigit() or toks[j] in G.lib_port_names(6, platform) or toks[j] in G.lib_port_names(17, platform)):
                                if not toks[j].isdigit():
                                    v.fail("acls:port_nr-renders-name", dict(detail, line=ln))
                                j += 1
                has_port = any(t in R.OPERATORS for t in toks)
                if opts.get("protocol_nr") and not has_port and len(toks) > 1 and not toks[1].isdigit():
                    v.fail("acls:protocol_nr-renders-name", dict(detail, line=ln))
    if v.fails:
        return v
    # aces(): concatenation of all ACL bodies in config order
    # (without group_by: grouping the lines of several ACLs at once would merge equal headings across ACLs)
    ver = opts.get("version", "0")
    items = list(_flat(cisco_acl.aces(config, platform=platform, version=ver)))
    text = ("ip access-list extended X\n" if platform == "ios" else "ip access-list X\n") + "\n".join(" " + o.line for o in items)
    try:
        _, flat = G.read_flat(text, platform, ver, strict=False) if items else (None, [])
    except R.RefError as ex:
        v.fail("aces:unreadable", dict(detail, why=str(ex)[:200]))
        return v
    text_order = [m for sec in case["sections"] if sec["s"] in ("acl", "acl-cont") for m in G.flat_meaning(sec["acl"])]
    if flat != text_order:
        v.fail("aces:not-the-concatenation-of-acl-bodies", dict(detail, got=[o.line for o in items]))
    # addrgroups(): exactly the group sections, in order, with their members
    grs = cisco_acl.addrgroups(config, platform=platform)
    want_g = []
    for s in case["sections"]:
        if s["s"] == "group" and not s.get("cont"):
            want_g.append((s["name"], [tuple(m) for c in case["sections"] if c["s"] == "group" and c["name"] == s["name"]
                                       for m in c["members"]]))
    got_g = []
    for g in grs:
        try:
            got_g.append((g.name, [R.read_member(o.line, platform)[1] for o in g.items]))
        except R.RefError as ex:
            v.fail("addrgroups:member-unreadable", dict(detail, group=g.line, why=str(ex)[:200]))
            return v
    if got_g != want_g:
        v.fail("addrgroups:groups-or-members-differ", dict(detail, got=[g.line for g in grs]))
    # metamorphic: deeper indentation + comment lines between sections
    if not v.fails:
        config2 = render_config(case, extra_indent=case.get("reindent", 2), comments=True)
        got2 = cisco_acl.acls(config2, names=names, **kw) if names is not None else cisco_acl.acls(config2, **kw)
        agr = cisco_acl.addrgroups(config2, platform=platform, indent=opts.get("indent", "  "))
        if [g.name for g in agr] != [g.name for g in grs] or [[o.line for o in g.items] for g in agr] != [[o.line for o in g.items] for g in grs]:
            v.fail("metamorphic:addrgroups-change-with-reindent", dict(detail, config2=config2))
        if "indent" in opts and any(g.indent != opts["indent"] for g in agr):
            v.fail("addrgroups:indent-kwarg-not-applied", detail)
        if [(a.line, a.input, a.output) for a in got2] != [(a.line, a.input, a.output) for a in got]:
            v.fail("metamorphic:reindent-or-comments-change-result", dict(detail, config2=config2))
    nb = sum(len(s.get("bind") or []) for s in case["sections"] if s["s"] == "intf")
    referenced = any(m for w in want_acls for pair in w["members"] for m in pair if m)
    v.nt(len(want_acls) >= 2 or nb > 0 or referenced)
    v.label(platform, f"acls={min(len(want_acls), 4)}", "bindings" if nb else "no-bindings",
            "referenced-group" if referenced else "no-referenced-group", "names-filter" if names is not None else "no-filter")
    if any(len({n for n, _ in s.get("bind") or []}) == 2 for s in case["sections"] if s["s"] == "intf"):
        v.label("two-acls-on-one-interface")
    return v


@st.composite
def config_st(draw, tier):
    platform = draw(st.sampled_from(["ios", "nxos"]))
    nacl = draw(st.integers(1, 3))
    # names that are prefixes, suffixes and inner parts of one another (a filter must match the whole name)
    acl_names = draw(st.one_of(
        st.just(["A1", "B-2", "c.3", "110"][:nacl]),
        st.lists(st.sampled_from(["A1", "xA1", "A1x", "1", "10", "110", "B-2", "OOB-2", "B-2-in", "c.3", "c", "MGMT", "OOB-MGMT",
                                  "standard-mgmt", "extended-vty-in", "standard_snmp", "LONG-" + "abcdefghij" * 8]),
                 min_size=nacl, max_size=nacl, unique=True)))
    sections = []
    for name in acl_names:
        acl = draw(G.acl_st(platform=platform, min_items=1, max_items=6, kmax=2, groups=True, members=False, seqs=True,
                            group_by=False))
        acl["name"] = name
        acl["group_by"] = ""
        sections.append({"s": "acl", "acl": acl, "ind": draw(st.integers(1, 4))})
    referenced = sorted({it["rec"][side]["n"] for sec in sections for it in sec["acl"]["items"] if it["t"] == "ace"
                         for side in ("src", "dst") if it["rec"][side]["k"] == "group"})
    gnames = [n for n in referenced if draw(st.sampled_from([True, True, True, False]))]
    gnames += [n for n in draw(st.lists(st.sampled_from(["G1", "G2", "UNUSED", "g1", "net-a", "G.3", "Hosts", "web"]), max_size=2, unique=True)) if n not in gnames]
    for gname in gnames:
        members = []
        for _ in range(draw(st.integers(1, 4))):
            w = (1 << (32 - draw(st.integers(8, 32)))) - 1
            if platform == "nxos" and draw(st.sampled_from(range(5))) == 0:
                w = draw(G.wildmask_st(3, nc_only=True))  # NX-OS members may be non-contiguous wildcards
            if platform == "nxos" and draw(st.sampled_from(range(8))) == 3:
                w = R.ALL1  # 0.0.0.0/0, which NX-OS also spells 'any'
            members.append([draw(G.base_st()) & ~w & R.ALL1, w])
        sections.append({"s": "group", "name": gname, "members": members, "ind": draw(st.integers(1, 4)),
                         "desc": draw(st.sampled_from(["", "", "some group"])), "style": draw(st.integers(0, 3)),
                         "seqs": draw(st.lists(st.sampled_from([0, 10, 20]), min_size=1, max_size=2)) if platform == "nxos" else [0]})
    for i in range(draw(st.integers(0, 3))):
        bind = []
        for direction in draw(st.lists(st.sampled_from(["in", "out"]), max_size=2, unique=True)):
            bind.append([draw(st.sampled_from(acl_names + acl_names + ["UNDEFINED"])), direction])
        iname = draw(st.sampled_from([f"Ethernet1/{i + 1}", f"Ethernet1/{i + 1}", f"Serial0/0/{i}.100 point-to-point",
                                      f"ATM0/{i}.1 multipoint", f"Vlan{i + 10}", f"port-channel{i + 1}.5"]))
        sections.append({"s": "intf", "name": iname, "bind": bind, "ind": draw(st.integers(1, 4)),
                         "extra": draw(st.lists(st.sampled_from(["ip address 10.1.1.1 255.255.255.0", "no shutdown",
                                                                 "description uplink", "ip access-group"]), max_size=3)),
                         "pos": draw(st.integers(0, 3))})
    for _ in range(draw(st.integers(0, 3))):
        sections.append({"s": "noise", "kind": draw(st.sampled_from(["bgp", "vty", "hostname", "globals", "classmap"])),
                         "ind": draw(st.integers(1, 3))})
    for _ in range(draw(st.integers(0, 2))):
        sections.append({"s": "comment", "text": draw(st.sampled_from(["", " comment", " ip access-list extended FAKE"]))})
    sections = list(draw(st.permutations(sections)))
    if draw(st.sampled_from(range(5))) == 0:
        cands = [i for i, sec in enumerate(sections) if sec["s"] == "acl" and len(sec["acl"]["items"]) >= 2]
        if cands:
            i = draw(st.sampled_from(cands))
            base = sections[i]["acl"]
            cut = draw(st.integers(1, len(base["items"]) - 1))
            cont = dict(base, items=base["items"][cut:])
            sections[i] = dict(sections[i], acl=dict(base, items=base["items"][:cut]))
            sections.insert(draw(st.integers(i + 1, len(sections))), {"s": "acl-cont", "acl": cont, "ind": draw(st.integers(1, 4))})
    if draw(st.sampled_from(range(5))) == 3:
        cands = [i for i, sec in enumerate(sections) if sec["s"] == "group" and len(sec["members"]) >= 2]
        if cands:
            i = draw(st.sampled_from(cands))
            base = sections[i]
            cut = draw(st.integers(1, len(base["members"]) - 1))
            sections[i] = dict(base, members=base["members"][:cut])
            sections.insert(draw(st.integers(i + 1, len(sections))), dict(base, members=base["members"][cut:], cont=True, desc=""))
    names = None
    if draw(st.integers(0, 2)) == 0:
        near = [n + "0" for n in acl_names] + ["x" + n for n in acl_names] + [n[:-1] for n in acl_names if len(n) > 1] + \
               [n[1:] for n in acl_names if len(n) > 1] + [n[-1:] for n in acl_names if len(n) > 1]
        names = draw(st.lists(st.sampled_from(acl_names + near + ["NOPE", ""]), max_size=3, unique=True))
    prefix = sections[0]["acl"]["prefix"] if sections and sections[0]["s"] in ("acl", "acl-cont") else "= "
    opts = {}
    if draw(st.booleans()):
        for key, strat in (("port_nr", st.booleans()), ("protocol_nr", st.booleans()),
                           ("indent", st.sampled_from([" ", "  ", "   ", "\t"])),
                           ("version", st.sampled_from(["0", "15.2(02)SY", "16.09.06", "9.3(8)"])),
                           ("max_ncwb", st.sampled_from([8, 16, 30]))):
            if draw(st.booleans()):
                opts[key] = draw(strat)
    return {"platform": platform, "sections": list(sections), "names": names, "opts": opts,
            "group_by": draw(st.sampled_from(["", "", prefix])), "reindent": draw(st.integers(1, 3))}


SUBS = [Sub("config", judge, strategy=config_st, quick=2500, thorough=40000, shards_thorough=48)]

MANIFEST = {
    "technique": "property-based testing with constructed expectations: generated device configurations (shuffled ACL / group / interface / noise / comment sections) whose correct extraction is known by construction, compared with acls(), aces(), addrgroups(); metamorphic re-indentation and comment insertion",
    "text": "exploration: on thousands (quick) / 40 000 (thorough) generated configurations the extracted ACL list, each body (by meaning, in order), type, inbound / outbound interface sets, attached group members, aces() concatenation and addrgroups() matched the expectation built into the configuration; deeper indentation and comment lines left the result unchanged",
    "note": "trusted: lib/refsem.py reading of rendered ACL text and members; domain restricted to unique ACL / group names, non-empty ACL bodies, indentation >= 1, one ACL per direction per interface",
}
