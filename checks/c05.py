"""C05 Wildcard -> prefixes is exact; limits reject, never truncate; no stale results."""
from __future__ import annotations

from ipaddress import NetmaskValueError

from hypothesis import strategies as st

from lib import refsem as R
from lib.gen import ALL1, base_st
from lib.harness import Invalid, Sub, Verdict

PROPERTY = "C05"
LEVEL = "exploration"
RULE = ("cases: (base, wildmask, limit) triples - complete enumeration of all masks confined to the low "
        "10 (quick) / 12 (thorough) bits x 4 bases, random 32-bit masks (low run + 0..16 scattered bits), "
        "all limits 0..30 from both sides of the boundary, and op-list histories (set line / set limit / "
        "query) on one Wildcard or Address object; oracle: validity predicate (2^k distinct prefixes of "
        "length 32-t agreeing with the base outside the mask) + independent expansion; non-trivial: "
        ">=1 non-contiguous bit (single cases), a query after a reassignment after an earlier query "
        "(histories); distinct by canonical case")
RULE += ". Directed classes added after the seeded-change rounds: limits through string members of Address / AddrGroup groups; construction-time limits via Wildcard(), fprefix, fsubnet; read-only containment questions and the Address limit attribute inside histories; subnet-mask-shaped masks with aligned bases"
ASSUMPTIONS = ["refsem bit algebra (lib/refsem.py) is the meaning of address+wildcard",
               "expansion is only requested for k <= 16 non-contiguous bits (library default limit)"]

EXPAND_MAX = 16


def _mk(cls_name, line, **kw):
    from cisco_acl import Address, Wildcard

    return (Wildcard if cls_name == "Wildcard" else Address)(line, **kw)


def check_expansion(v: Verdict, nets, base: int, wild: int, where: str) -> None:
    """Validity predicate for the prefix list of (base, wild)."""
    t = R.trailing_ones(wild)
    k = len(R.nc_bits(wild))
    mbase = base & ~wild & ALL1
    if len(nets) != 1 << k:
        v.fail(f"{where}:count", {"got": len(nets), "want": 1 << k, "base": R.int2ip(base), "wild": R.int2ip(wild)})
        return
    seen = set()
    for n in nets:
        a = int(n.network_address)
        if n.prefixlen != 32 - t:
            v.fail(f"{where}:prefixlen", {"net": str(n), "want_len": 32 - t, "wild": R.int2ip(wild)})
            return
        if (a & ~wild & ALL1) != mbase:
            v.fail(f"{where}:outside-bits", {"net": str(n), "base": R.int2ip(mbase), "wild": R.int2ip(wild)})
            return
        if a & ((1 << t) - 1):
            v.fail(f"{where}:hostbits", {"net": str(n)})
            return
        seen.add(a)
    if len(seen) != len(nets):
        v.fail(f"{where}:duplicates", {"distinct": len(seen), "n": len(nets), "wild": R.int2ip(wild)})
        return
    if k <= 10:
        want = R.pair_prefixes((mbase, wild))
        got = sorted((int(n.network_address), n.prefixlen) for n in nets)
        if got != want:
            v.fail(f"{where}:differs-from-reference", {"wild": R.int2ip(wild), "base": R.int2ip(mbase)})


def check_scalars(v: Verdict, obj, base: int, wild: int, where: str) -> None:
    t = R.trailing_ones(wild)
    k = len(R.nc_bits(wild))
    mbase = base & ~wild & ALL1
    want_line = f"{R.int2ip(mbase)} {R.int2ip(wild)}"
    if obj.line != want_line:
        v.fail(f"{where}:line", {"got": obj.line, "want": want_line})
    if obj.prefix != R.int2ip(mbase) or obj.wildmask != R.int2ip(wild):
        v.fail(f"{where}:prefix-wildmask", {"got": [obj.prefix, obj.wildmask], "want": want_line})
    if (obj.ipnet is not None) != (k == 0):
        v.fail(f"{where}:ipnet-iff-contiguous", {"ipnet": str(obj.ipnet), "k": k, "wild": R.int2ip(wild)})
    elif k == 0 and (int(obj.ipnet.network_address), obj.ipnet.prefixlen) != (mbase, 32 - t):
        v.fail(f"{where}:ipnet-value", {"ipnet": str(obj.ipnet), "want": f"{R.int2ip(mbase)}/{32 - t}"})


# --------------------------------------------------------------------------------------- single
def judge_single(case) -> Verdict:
    from cisco_acl import Address, Wildcard

    base, wild = case["b"] & ALL1, case["w"] & ALL1
    limit = case.get("max")
    v = Verdict()
    k = len(R.nc_bits(wild))
    t = R.trailing_ones(wild)
    line = f"{R.int2ip(base)} {R.int2ip(wild)}"
    kw = {} if limit is None else {"max_ncwb": limit}
    eff = 16 if limit is None else limit
    v.label(f"k={min(k, 17)}" if k < 17 else "k>16", "hostbits" if base & wild else "masked-base")
    v.nt(k >= 1)
    via = case.get("via")
    if via is not None:
        # the same line given as a string member of an address group that carries the limit
        from cisco_acl import AddrGroup

        if via not in ("address-group-member", "addrgroup-member"):
            raise Invalid()
        v.label(via)
        try:
            if via == "address-group-member":
                grp = Address("object-group G1", items=[line], **kw)
            else:
                grp = AddrGroup("object-group ip address G1", items=[line], platform="nxos", **kw)
        except NetmaskValueError:
            if k <= eff:
                v.fail(f"single:{via}:rejected-within-limit", {"line": line, "k": k, "limit": eff})
            else:
                v.label("rejected-over-limit")
            return v
        if k > eff:
            v.fail(f"single:{via}:accepted-over-limit", {"line": line, "k": k, "limit": eff,
                                                         "got": [o.line for o in grp.items]})
            return v
        if len(grp.items) != 1:
            v.fail(f"single:{via}:member-count", {"line": line, "got": [o.line for o in grp.items]})
            return v
        if k <= 8:
            check_expansion(v, grp.items[0].ipnets(), base, wild, f"single:{via}:ipnets")
        return v
    try:
        wc = Wildcard(line, **kw)
    except NetmaskValueError:
        if k <= eff:
            v.fail("single:rejected-within-limit", {"line": line, "k": k, "limit": eff})
        else:
            v.label("rejected-over-limit")
        return v
    if k > eff:
        v.fail("single:accepted-over-limit", {"line": line, "k": k, "limit": eff, "got": wc.line})
        return v
    check_scalars(v, wc, base, wild, "single")
    if k <= EXPAND_MAX:
        check_expansion(v, wc.ipnets(), base, wild, "single:ipnets")
        # second call (memo) must still describe this line
        check_expansion(v, wc.ipnets(), base, wild, "single:ipnets-2nd")
    if k <= 8:
        ad = Address(line, **kw)
        nets = ad.ipnets()
        check_expansion(v, nets, base, wild, "single:Address.ipnets")
        if ad.prefixes() != [str(n) for n in nets]:
            v.fail("single:Address.prefixes", {"line": line})
        if ad.subnets() != [f"{n.network_address} {n.netmask}" for n in nets]:
            v.fail("single:Address.subnets", {"line": line})
        mb = base & ~wild & ALL1
        if ad.wildcards() != [f"{R.int2ip(mb)} {R.int2ip(wild)}"]:
            v.fail("single:Address.wildcards", {"line": line, "got": ad.wildcards()})
    if k == 0:
        mb = base & ~wild & ALL1
        want = f"{R.int2ip(mb)} {R.int2ip(wild)}"
        fp = Wildcard.fprefix(f"{R.int2ip(base)}/{32 - t}")
        if fp.line != want:
            v.fail("single:fprefix", {"got": fp.line, "want": want})
        fs = Wildcard.fsubnet(f"{R.int2ip(mb)} {R.int2ip(~wild & ALL1)}")
        if fs.line != want:
            v.fail("single:fsubnet", {"got": fs.line, "want": want})
    return v


def enum_low_bits(tier, shard, nshards):
    nbits = 12 if tier == "thorough" else 10
    bases = [R.ip2int("10.1.2.3"), 0, ALL1, R.ip2int("172.16.255.85")]
    idx = 0
    for mask in range(1 << nbits):
        for b in bases:
            if idx % nshards == shard:
                yield {"b": b, "w": mask}
            idx += 1


def enum_limits(tier, shard, nshards):
    """Every limit m in 0..30 with masks of exactly m and m+1 non-contiguous bits, several shapes."""
    idx = 0
    for m in range(0, 31):
        for k in (m, m + 1):
            for low in (0, 1, 5):
                if low + 1 + k > 32:
                    continue
                for shape in ("dense", "top"):
                    wild = (1 << low) - 1
                    if shape == "dense":
                        for j in range(k):
                            wild |= 1 << (low + 1 + j)
                    else:
                        for j in range(k):
                            wild |= 1 << (31 - j)
                    if len(R.nc_bits(wild)) != k:
                        continue
                    for via in (None, "address-group-member", "addrgroup-member"):
                        if idx % nshards == shard:
                            case = {"b": R.ip2int("10.170.85.1"), "w": wild, "max": m}
                            if via:
                                case["via"] = via
                            yield case
                        idx += 1


@st.composite
def random_single(draw):
    low = draw(st.one_of(st.integers(0, 8), st.integers(0, 31)))
    wild = (1 << low) - 1
    k = draw(st.one_of(st.integers(0, 4), st.integers(0, 10), st.integers(0, 16)))
    if low < 31 and k:
        bits = draw(st.lists(st.integers(low + 1, 31), min_size=0, max_size=k, unique=True))
        for b in bits:
            wild |= 1 << b
    base = draw(base_st())
    if draw(st.integers(0, 5)) == 3:
        # the highest k bits as mask (a subnet mask typed where a wildcard belongs), address bits below them zero or not
        kk = draw(st.integers(1, 16))
        wild = ((1 << kk) - 1) << (32 - kk)
        base = draw(st.sampled_from([0, base & wild, base, 0x0A140000 & ~wild & ALL1 | (base & wild)]))
    elif draw(st.integers(0, 5)) == 2:
        base &= wild  # nothing but wildcard bits set in the address
    case = {"b": base, "w": wild}
    if draw(st.integers(0, 3)) == 0:
        case["max"] = draw(st.integers(0, 30))
        if draw(st.integers(0, 2)) == 0:
            case["via"] = draw(st.sampled_from(["address-group-member", "addrgroup-member"]))
    return case


# --------------------------------------------------------------------------------------- histories
def judge_history(case) -> Verdict:
    """op list on one object; model = (base, wild) of the last successfully assigned line."""
    v = Verdict()
    cls = case["cls"]
    if cls not in ("Wildcard", "Address"):
        raise Invalid()
    base, wild = case["init"]
    limit = 16
    if len(R.nc_bits(wild)) > 8:
        raise Invalid()
    if case.get("born_group"):
        # an Address that starts its life as a group reference with members and is then re-addressed
        if cls != "Address":
            raise Invalid()
        from cisco_acl import Address

        obj = Address("object-group G1", items=[f"{R.int2ip(b & ~w & ALL1)} {R.int2ip(w)}" for b, w in case["born_group"]])
        _ = obj.ipnets()
        obj.line = f"{R.int2ip(base)} {R.int2ip(wild)}"
    else:
        kw = {}
        if case.get("init_max") is not None:
            # the limit given at construction, through the plain constructor or one of the alternative ones
            limit = case["init_max"]
            if not isinstance(limit, int) or not 0 <= limit <= 30 or len(R.nc_bits(wild)) > limit:
                raise Invalid()
            kw["max_ncwb"] = limit
        ctor = case.get("ctor", "line")
        if ctor == "line":
            obj = _mk(cls, f"{R.int2ip(base)} {R.int2ip(wild)}", **kw)
        elif cls == "Wildcard" and ctor in ("fprefix", "fsubnet") and R.is_contiguous(wild):
            from cisco_acl import Wildcard

            mb, t = base & ~wild & ALL1, R.trailing_ones(wild)
            obj = Wildcard.fprefix(f"{R.int2ip(mb)}/{32 - t}", **kw) if ctor == "fprefix" else \
                Wildcard.fsubnet(f"{R.int2ip(mb)} {R.int2ip(~wild & ALL1)}", **kw)
        else:
            raise Invalid()
    queried = False
    reassigned_after_query = False
    kinds = set()
    poisoned = False
    for step, op in enumerate(case["ops"]):
        name = op[0]
        where = f"hist-{cls}"
        if name == "set":
            nb, nw = op[1] & ALL1, op[2] & ALL1
            k = len(R.nc_bits(nw))
            if k > 8 and k <= limit:
                raise Invalid()
            line = f"{R.int2ip(nb)} {R.int2ip(nw)}"
            try:
                obj.line = line
            except NetmaskValueError:
                if k <= limit:
                    v.fail(f"{where}:rejected-within-limit", {"line": line, "limit": limit, "step": step})
                    return v
                poisoned = True  # nothing is claimed about an object whose assignment was refused
                continue
            if k > limit:
                v.fail(f"{where}:accepted-over-limit", {"line": line, "limit": limit, "step": step})
                return v
            poisoned = False
            base, wild = nb, nw
            if queried:
                reassigned_after_query = True
            kinds.add("set")
        elif name == "compare":
            # a read-only question in between (is this address inside that one, and the reverse): no derived value may
            # change through it
            if cls != "Address" or poisoned:
                continue
            from cisco_acl import Address

            ob, ow = op[1] & ALL1, op[2] & ALL1
            if len(R.nc_bits(ow)) > 8:
                raise Invalid()
            other = Address(f"{R.int2ip(ob & ~ow & ALL1)} {R.int2ip(ow)}")
            got = (obj.subnet_of(other), other.subnet_of(obj))
            want = (R.pair_contains((ob & ~ow & ALL1, ow), (base & ~wild & ALL1, wild)),
                    R.pair_contains((base & ~wild & ALL1, wild), (ob & ~ow & ALL1, ow)))
            if got != want:
                v.fail(f"{where}:containment-answer", {"got": got, "want": want, "step": step})
            kinds.add("c")
        elif name == "max":
            if cls != "Wildcard" and not case.get("address_limit_attr"):
                continue
            limit = op[1]
            if not 0 <= limit <= 30:
                raise Invalid()
            obj.max_ncwb = limit
            kinds.add("max")
        elif poisoned:
            continue
        elif name == "ipnets":
            nets = obj.ipnets()
            check_expansion(v, nets, base, wild, f"{where}:ipnets-after-history")
            if reassigned_after_query:
                v.nt()
            queried = True
            kinds.add("q")
        elif name == "scalars":
            mb = base & ~wild & ALL1
            if cls == "Wildcard":
                check_scalars(v, obj, base, wild, f"{where}:scalars-after-history")
            else:
                if obj.wildcard != f"{R.int2ip(mb)} {R.int2ip(wild)}":
                    v.fail(f"{where}:wildcard-after-history", {"got": obj.wildcard, "step": step})
                k = len(R.nc_bits(wild))
                if (obj.ipnet is not None) != (k == 0):
                    v.fail(f"{where}:ipnet-after-history", {"got": str(obj.ipnet), "wild": R.int2ip(wild)})
                if k == 0 and obj.prefix != f"{R.int2ip(mb)}/{32 - R.trailing_ones(wild)}":
                    v.fail(f"{where}:prefix-after-history", {"got": obj.prefix})
            if reassigned_after_query:
                v.nt()
            queried = True
            kinds.add("s")
        else:
            raise Invalid()
        if v.fails:
            v.fails = [(b, dict(d, trace=case["ops"][: step + 1]) if isinstance(d, dict) else d) for b, d in v.fails]
            return v
    v.label(cls, f"ops={min(len(case['ops']), 10)}")
    return v


@st.composite
def small_pair(draw):
    low = draw(st.integers(0, 6))
    wild = (1 << low) - 1
    for b in draw(st.lists(st.integers(low + 1, 14), min_size=0, max_size=4, unique=True)):
        wild |= 1 << b
    if draw(st.integers(0, 4)) == 0:
        wild = (1 << draw(st.integers(0, 32))) - 1
    return [draw(base_st()), wild]


@st.composite
def history(draw):
    cls = draw(st.sampled_from(["Wildcard", "Wildcard", "Address"]))
    init = draw(small_pair())
    ops = []
    for _ in range(draw(st.integers(2, 12))):
        kind = draw(st.sampled_from(["set", "set", "ipnets", "ipnets", "scalars", "max", "over", "compare"]))
        if kind == "compare":
            p = draw(small_pair())
            ops.append(["compare", p[0], p[1]])
            continue
        if kind == "set":
            p = draw(small_pair())
            ops.append(["set", p[0], p[1]])
        elif kind == "over":
            # a mask above the current limit: must be refused
            ops.append(["set", draw(base_st()), 0xFFFFFFFE])  # 31 non-contiguous bits: above every limit
        elif kind == "max":
            ops.append(["max", draw(st.one_of(st.integers(0, 4), st.integers(8, 30)))])  # also below the current k
        else:
            ops.append([kind])
    case = {"cls": cls, "init": init, "ops": ops}
    if cls == "Address":
        case["address_limit_attr"] = True  # the limit attribute of an Address is honoured by its next line
    if cls == "Address" and draw(st.booleans()):
        case["born_group"] = [draw(small_pair()) for _ in range(draw(st.integers(1, 3)))]
    elif draw(st.integers(0, 2)) == 0:
        k0 = len(R.nc_bits(init[1]))
        case["init_max"] = draw(st.one_of(st.integers(k0, 6), st.integers(k0, 30)))
        if cls == "Wildcard" and R.is_contiguous(init[1]):
            case["ctor"] = draw(st.sampled_from(["line", "fprefix", "fsubnet"]))
        # masks just below / above that limit come next
        lim = case["init_max"]
        for kk in (lim + 1, lim):
            if 1 <= kk <= 8 or (kk > 8 and kk == lim + 1 and kk <= 30):
                ops.insert(draw(st.integers(0, min(2, len(ops)))), ["set", draw(base_st()), ((1 << kk) - 1) << 1])
    return case


# --------------------------------------------------------------------------------------- group address histories
def judge_group_history(case) -> Verdict:
    """An Address that is a group reference with member networks: queries of every derived list, member edits in
    place (line of a member, append, pop), queries again - every list describes the CURRENT members."""
    from cisco_acl import Address

    members = [[b & ALL1, w & ALL1] for b, w in case["members"]]
    if not members or any(len(R.nc_bits(w)) > 4 for _, w in members):
        raise Invalid()
    obj = Address("object-group G1", items=[f"{R.int2ip(b & ~w & ALL1)} {R.int2ip(w)}" for b, w in members])
    v = Verdict()
    edited = False
    for step, op in enumerate(case["ops"]):
        name = op[0]
        if name == "query":
            want = sorted(x for b, w in members for x in R.pair_prefixes((b & ~w & ALL1, w)))
            nets = obj.ipnets()
            got = sorted((int(n.network_address), n.prefixlen) for n in nets)
            if got != want:
                v.fail("group-hist:ipnets", {"step": step, "members": [o.line for o in obj.items], "trace": case["ops"][: step + 1]})
                return v
            if sorted(obj.prefixes()) != sorted(str(n) for n in nets):
                v.fail("group-hist:prefixes-differ-from-ipnets", {"step": step, "prefixes": obj.prefixes()[:6],
                                                                  "ipnets": [str(n) for n in nets][:6], "trace": case["ops"][: step + 1]})
                return v
            if sorted(obj.subnets()) != sorted(f"{n.network_address} {n.netmask}" for n in nets):
                v.fail("group-hist:subnets-differ-from-ipnets", {"step": step, "trace": case["ops"][: step + 1]})
                return v
            if sorted(obj.wildcards()) != sorted(f"{R.int2ip(b & ~w & ALL1)} {R.int2ip(w)}" for b, w in members):
                v.fail("group-hist:wildcards", {"step": step, "got": obj.wildcards()[:6], "trace": case["ops"][: step + 1]})
                return v
            if edited:
                v.nt()
        elif name == "line":
            i = op[1] % len(members)
            nb, nw = op[2] & ALL1, op[3] & ALL1
            if len(R.nc_bits(nw)) > 4:
                raise Invalid()
            obj.items[i].line = f"{R.int2ip(nb & ~nw & ALL1)} {R.int2ip(nw)}"
            members[i] = [nb, nw]
            edited = True
        elif name == "append":
            nb, nw = op[1] & ALL1, op[2] & ALL1
            if len(R.nc_bits(nw)) > 4:
                raise Invalid()
            obj.items.append(Address(f"{R.int2ip(nb & ~nw & ALL1)} {R.int2ip(nw)}"))
            members.append([nb, nw])
            edited = True
        elif name == "pop":
            if len(members) > 1:
                obj.items.pop()
                members.pop()
                edited = True
        else:
            raise Invalid()
    v.label("group-address", f"members={min(len(members), 5)}")
    return v


@st.composite
def group_history(draw):
    members = [draw(small_pair()) for _ in range(draw(st.integers(1, 3)))]
    ops = [["query"]] if draw(st.booleans()) else []
    for _ in range(draw(st.integers(1, 6))):
        kind = draw(st.sampled_from(["query", "query", "line", "line", "append", "pop"]))
        if kind == "line":
            p = draw(small_pair())
            ops.append(["line", draw(st.integers(0, 3)), p[0], p[1]])
        elif kind == "append":
            p = draw(small_pair())
            ops.append(["append", p[0], p[1]])
        else:
            ops.append([kind])
    ops.append(["query"])
    return {"members": members, "ops": ops}


SUBS = [
    Sub("lowbits", judge_single, enum=enum_low_bits, quick=1, thorough=1, shards_quick=16, shards_thorough=32,
        exhaustive=True, exhaustive_quick=True),
    Sub("limits", judge_single, enum=enum_limits, quick=1, thorough=1, shards_quick=4, shards_thorough=4,
        exhaustive=True, exhaustive_quick=True),
    Sub("random", judge_single, strategy=lambda tier: random_single(), quick=3000, thorough=150000),
    Sub("history", judge_history, strategy=lambda tier: history(), quick=2500, thorough=150000),
    Sub("group-history", judge_group_history, strategy=lambda tier: group_history(), quick=800, thorough=40000),
]


def evidence_extra(total):
    return {"exhaustive": False,
            "exhaustive_subdomains": "lowbits (all masks confined to the low 10/12 bits x 4 bases) and limits "
                                     "(every limit 0..30 with k = limit and k = limit + 1) are enumerated "
                                     "completely; random and history are sampled"}

MANIFEST = {
    "technique": "property-based testing: exhaustive enumeration of a 12-bit mask sub-domain + Hypothesis random masks + op-list histories (model-based) against a bit-algebra validity predicate",
    "text": "exploration: no counterexample among all masks confined to the low 10/12 bits x 4 bases (complete), every limit 0..30 from both sides, thousands of random 32-bit masks and thousands of set/query histories; exact cover is decided by a validity predicate (2^k distinct equal-length prefixes agreeing with the base outside the mask), not by sampling addresses",
    "note": "trusted: lib/refsem.py bit algebra and Python's ipaddress; expansion checked only for k<=16 non-contiguous bits; nothing is claimed about an object after a refused assignment",
}
