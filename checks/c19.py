"""C19 Splitting multi-port entries into single-port entries keeps the meaning (translation validation)."""
from __future__ import annotations

from hypothesis import strategies as st

from lib import acehelp as A
from lib import gen as G
from lib import refsem as R
from lib.harness import Invalid, Sub, Verdict

PROPERTY = "C19"
LEVEL = "translation_validation"
RULE = ("programs: IOS ACLs (flat / grouped by remark prefix), stand-alone AceGroups and single ACEs in which "
        "entries use eq or neq with 1..10 ports on source and/or destination, among other entries and remarks; "
        "translated by ungroup_ports() at the three levels and by the implicit split of Acl.platform='nxos'. "
        "Per program the output is validated against the input: every entry is replaced IN PLACE by a run whose "
        "entries have one operand per eq/neq side, all other fields equal (refsem meaning), each included in the "
        "original, the (source x destination) operand product complete and without duplicates, union == "
        "original; entries needing no split keep their identifier and text; first-match equivalence is "
        "cross-checked by boundary packet sampling. Non-trivial: at least one entry was split")
RULE += ". Directed classes added after the seeded-change rounds: twins of split results and twins that differ in options only; 17-bit wildcards under a raised limit; a second split of the same object after an in-place append; a plain entry appended after the blocks"
ASSUMPTIONS = ["refsem packet semantics", "order inside a run is not constrained by the property",
               "split entries may share the original sequence number"]

KNOWN_WITNESS = {}


def _count(p):
    return len(p["v"]) if p and p["op"] in ("eq", "neq") else 1


def expected_run(rec):
    """Single-operand records whose union should equal rec (exact for eq; for neq with one operand)."""
    sps = [rec.get("sp")]
    dps = [rec.get("dp")]
    if rec.get("sp") and rec["sp"]["op"] in ("eq", "neq"):
        sps = [dict(rec["sp"], v=[x], nm=[-1]) for x in sorted(rec["sp"]["v"])]
    if rec.get("dp") and rec["dp"]["op"] in ("eq", "neq"):
        dps = [dict(rec["dp"], v=[x], nm=[-1]) for x in sorted(rec["dp"]["v"])]
    return [dict(rec, sp=s, dp=d) for s in sps for d in dps]


def neq_multi(rec) -> bool:
    return any(rec.get(s) and rec[s]["op"] == "neq" and len(set(rec[s]["v"])) > 1 for s in ("sp", "dp"))


def _read(line, platform):
    return R.read_body_line(line, platform=platform, names=G.names_fn(platform), proto_names=G.lib_proto_any(),
                            strict=True)


def validate_translation(v: Verdict, items, before_meta, after_objs, platform_after, detail, where):
    """items: the generated program; before_meta: (uuid, line) per input entry; after_objs: output objects."""
    pos = 0
    split_any = False
    rules_before, rules_after, sample_ok = [], [], True
    for idx, it in enumerate(items):
        if it["t"] == "rem":
            if pos >= len(after_objs) or after_objs[pos].line != before_meta[idx][1]:
                v.fail(f"{where}:remark-moved-or-changed", dict(detail, at=idx))
                return None
            pos += 1
            continue
        rec = G.strip_members(it["rec"])
        want = expected_run(rec)
        n = len(want)
        run = after_objs[pos:pos + n]
        if len(run) < n:
            v.fail(f"{where}:entries-missing", dict(detail, at=idx, want=n, got=len(run)))
            return None
        orig = G.rec_rule(rec)
        rules_before.append(G.rec_rule(it["rec"]))
        if n == 1:
            o = run[0]
            if o.uuid != before_meta[idx][0]:
                v.fail(f"{where}:unsplit-entry-replaced", dict(detail, at=idx, line=o.line))
            try:
                got = _read(o.line, platform_after)
            except R.RefError as ex:
                v.fail(f"{where}:output-not-valid-syntax", dict(detail, line=o.line, why=str(ex)))
                return None
            if isinstance(got, R.RemarkLine) or got.meaning() != orig.meaning() or got.seq != orig.seq:
                v.fail(f"{where}:unsplit-entry-changed", dict(detail, at=idx, line=o.line))
                return None
            if not _members_kept(o, it["rec"], platform_after):
                v.fail(f"{where}:group-members-lost", dict(detail, at=idx, line=o.line))
            rules_after.append(G.rec_rule(it["rec"]))
            pos += 1
            continue
        split_any = True
        got_m, want_m = [], sorted(repr(G.rec_rule(w).meaning()) for w in want)
        for o in run:
            try:
                g = _read(o.line, platform_after)
            except R.RefError as ex:
                v.fail(f"{where}:output-not-valid-syntax", dict(detail, line=o.line, why=str(ex)))
                return None
            if isinstance(g, R.RemarkLine):
                v.fail(f"{where}:run-is-not-the-operand-product", dict(detail, at=idx, run=[x.line for x in run]))
                return None
            if g.seq != orig.seq:
                v.fail(f"{where}:sequence-changed", dict(detail, line=o.line))
            if not _members_kept(o, it["rec"], platform_after):
                v.fail(f"{where}:group-members-lost-on-split-entry", dict(detail, at=idx, line=o.line))
            if len(before_meta[idx]) > 2 and (o.note != before_meta[idx][2] or type(o.note) is not type(before_meta[idx][2])):
                v.fail(f"{where}:note-changed-on-split-entry", dict(detail, at=idx, note=repr(o.note)[:60]))
            for side in ("sport", "dport"):
                ps = getattr(g, side)
                if ps is not None and ps.op in ("eq", "neq") and len(ps.operands) != 1:
                    v.fail(f"{where}:still-multi-port", dict(detail, line=o.line))
            got_m.append(repr(g.meaning()))
            rules_after.append(g)
        if sorted(got_m) != want_m:
            v.fail(f"{where}:run-is-not-the-operand-product", dict(detail, at=idx, run=[o.line for o in run]))
            return None
        if neq_multi(rec):
            # the per-operand split of 'neq a b' is {!=a} u {!=b} = every port: not included in the original
            sample_ok = False
            v.fail("neq-multiport-split", dict(detail, at=idx, run=[o.line for o in run][:4],
                                               note="union of 'neq a' and 'neq b' is every port, original excludes a and b"))
        else:
            for w in want:
                if not R.rule_subset(G.rec_rule(w), orig):
                    raise AssertionError("expected run not included in original")
        pos += n
    if pos != len(after_objs):
        v.fail(f"{where}:extra-entries", dict(detail, extra=[o.line for o in after_objs[pos:]][:4]))
        return None
    if sample_ok and split_any and not v.fails:
        # members are not in the text: compare on the record-level rules (before) vs re-read text (after)
        plain = [r for r in rules_before if r.src.kind == "pair" and r.dst.kind == "pair"]
        if len(plain) == len(rules_before):
            diff = A.first_match_differs(rules_before, rules_after)
            if diff:
                v.fail(f"{where}:decision-changed-for-sampled-packet", dict(detail, **diff))
    return split_any


def _members_kept(obj, rec, platform) -> bool:
    """Attached member networks of group addresses survive (they are part of the entry's meaning)."""
    for side, attr in (("src", "srcaddr"), ("dst", "dstaddr")):
        if rec[side]["k"] != "group":
            continue
        try:
            got = [R._read_addr(x.line.split(), 0, platform, False)[0].pair for x in getattr(obj, attr).items]  # pylint: disable=protected-access
        except R.RefError:
            return False
        if got != list(G.addr_members(rec[side])):
            return False
    return True


def _note(k: int):
    """Notes are the caller's own objects of any type (a priority number, a dict ...)."""
    return [10 * (k + 1), {"prio": k, "owner": "noc"}, f"n{k}", (k, "t")][k % 4]


def judge(case) -> Verdict:
    from cisco_acl import AceGroup

    acl_case, level = case["acl"], case["level"]
    G.validate_acl(acl_case)
    if acl_case["platform"] != "ios" or level not in ("ace", "acegroup", "acl", "platform"):
        raise Invalid()
    items = acl_case["items"]
    if not items:
        raise Invalid()
    v = Verdict()
    text = G.render_acl(acl_case, noise=False)
    detail = {"level": level, "input": text}
    if level == "ace":
        aces = [it for it in items if it["t"] == "ace"]
        if not aces:
            raise Invalid()
        it = aces[case.get("pick", 0) % len(aces)]
        ace = A.build_ace(it["rec"], "ios")
        ace.note = _note(case.get("pick", 0))
        meta = [(ace.uuid, ace.line, ace.note)]
        line_before = ace.line
        out = ace.ungroup_ports()
        detail = {"level": level, "input": line_before, "output": [o.line for o in out]}
        if ace.line != line_before:
            v.fail("ace:source-entry-mutated", detail)
        split = validate_translation(v, [it], meta, out, "ios", detail, "ace")
        if split is False and not (len(out) == 1 and out[0] is ace):
            v.fail("ace:unsplit-entry-not-returned-as-is", detail)
        if split and len(out) > 1 and not v.fails:
            # the results are separate objects: moving ONE of them to another platform leaves the source entry and
            # the other results as they were
            others = [ace] + list(out[1:])
            snap = [o.line for o in others]
            try:
                out[0].platform = "asa"
            except ValueError:
                pass
            if [o.line for o in others] != snap:
                v.fail("ace:results-share-state-with-each-other-or-the-source", dict(detail, before=snap[:4],
                                                                                      after=[o.line for o in others][:4]))
    elif level == "acegroup":
        body = "\n".join(text.split("\n")[1:])
        grp = AceGroup(body, platform="ios")
        objs = list(grp.items)
        if len(objs) != len(items):
            raise Invalid()
        for o_, it_ in zip(objs, items):
            if it_["t"] == "ace":
                A.attach_members(o_, it_["rec"])
        for k_, o in enumerate(objs):
            o.note = _note(k_)
        meta = [(o.uuid, o.line, o.note) for o in objs]
        grp.ungroup_ports()
        detail["output"] = grp.line
        split = validate_translation(v, items, meta, list(grp.items), "ios", detail, "acegroup")
    else:
        acl = A.build_acl(acl_case)
        if case.get("tail"):
            # a plain entry appended IN PLACE after the blocks of a grouped ACL keeps its place (last line)
            tail = {"t": "ace", "rec": case["tail"]}
            G.validate_rec(tail["rec"], "ios")
            acl.append(A.build_ace(tail["rec"], "ios"))
            items = list(items) + [tail]
            v.label("appended-after-blocks")
        objs = list(A.flat_items(acl.items))
        if len(objs) != len(items):
            raise Invalid()
        for k_, o in enumerate(objs):
            o.note = _note(k_)
        meta = [(o.uuid, o.line, o.note) for o in objs]
        blocks_before = [b for _, b in A.flat_with_block(acl.items)]
        if level == "acl":
            acl.ungroup_ports()
            after_platform = "ios"
        else:
            acl.platform = "nxos"
            after_platform = "nxos"
            # remarks render the same on both platforms; unsplit ACE text changes spelling: meaning is compared
        detail["output"] = acl.line
        after = list(A.flat_items(acl.items))
        if level == "platform":
            meta = list(meta)
        split = validate_translation(v, items, meta, after, after_platform, detail, level)
        _ = blocks_before
        again = case.get("again")
        if again and level == "acl" and not v.fails and not any(it["t"] == "ace" and neq_multi(it["rec"]) for it in items):
            # the same ACL object is split a second time after a multi-port entry was appended in place
            G.validate_rec(again, "ios")
            if neq_multi(again) or G.rec_has_group(again):
                raise Invalid()
            order = {m_[0]: k for k, m_ in enumerate(meta)}
            items2 = []
            for it, _m in zip(items, meta):
                if it["t"] == "ace":
                    items2.extend({"t": "ace", "rec": r} for r in expected_run(it["rec"]))
                else:
                    items2.append(it)
            _ = order
            if len(items2) != len(after):
                raise Invalid()
            new = dict(again, seq=0)
            acl.append(A.build_ace(new, "ios", version=acl_case.get("version", "0")))
            items2.append({"t": "ace", "rec": new})
            objs2 = list(A.flat_items(acl.items))
            meta2 = [(o.uuid, o.line) for o in objs2]
            acl.ungroup_ports()
            detail2 = dict(detail, after_first_split=[ln for _, ln in meta2], output=acl.line)
            split2 = validate_translation(v, items2, meta2, list(A.flat_items(acl.items)), "ios", detail2, "acl-second-call")
            v.label("split-again-after-append", "second-split" if split2 else "second-no-split")
    v.nt(bool(split))
    v.label(level, "split" if split else "no-split")
    if any(it["t"] == "ace" and neq_multi(it["rec"]) for it in items):
        v.label("has-multi-neq")
    v.label("compared")
    return v


PORTY = st.sampled_from([6, 6, 6, 17, 17, 0, 1])


@st.composite
def case_st(draw, tier):
    acl = draw(G.acl_st(platform="ios", min_items=1, max_items=8, kmax=2, groups=True, members=True, seqs=True,
                        multi=True, neq_multi=True, protos=PORTY))
    # bound the size of a split (10 x 10 operands with a 65 k-element neq list each cost ~10 s in the library)
    for it in acl["items"]:
        if it["t"] == "ace":
            rec = it["rec"]
            if _count(rec.get("sp")) * _count(rec.get("dp")) > 20 and rec.get("dp"):
                keep = max(1, 20 // _count(rec.get("sp")))
                rec["dp"] = dict(rec["dp"], v=rec["dp"]["v"][:keep], nm=rec["dp"]["nm"][:keep])
    # duplicates of a split result elsewhere in the ACL (above or below the entry that gets split)
    multi = [it for it in acl["items"] if it["t"] == "ace" and len(expected_run(it["rec"])) > 1]
    if multi and draw(st.sampled_from([True, False, False])):
        src = draw(st.sampled_from(multi))
        twin = dict(draw(st.sampled_from(expected_run(src["rec"]))))
        acl["items"].insert(draw(st.integers(0, len(acl["items"]))), {"t": "ace", "rec": twin})
    if multi and draw(st.sampled_from([True, False, False])):
        # a second multi-port entry that differs from the first in its options only (log / flag keywords), nearby
        src = draw(st.sampled_from(multi))
        other = dict(src["rec"], seq=0)
        if other["proto"] == 6 and draw(st.booleans()):
            other["flags"] = [] if other.get("flags") else [draw(st.sampled_from(["syn", "ack", "established"]))]
        else:
            other["logs"] = [] if other.get("logs") else ["log"]
        other.pop("lf", None)
        pos = acl["items"].index(src) + draw(st.sampled_from([0, 1]))
        acl["items"].insert(pos, {"t": "ace", "rec": other})
    if multi and draw(st.sampled_from(range(6))) == 3:
        # an ACL read with a raised limit: a multi-port entry whose wildcard has 17 non-contiguous bits
        src = draw(st.sampled_from(multi))
        side = draw(st.sampled_from(["src", "dst"]))
        if src["rec"][side]["k"] != "group":
            w = ((1 << 17) - 1) << draw(st.integers(1, 6))
            src["rec"][side] = {"k": "wild", "b": 0x0A000001 & ~w & R.ALL1, "w": w}
            acl["max_ncwb"] = draw(st.sampled_from([17, 20, 30]))
    level = draw(st.sampled_from(["ace", "acegroup", "acl", "acl", "platform", "platform"]))
    if acl.get("max_ncwb"):
        level = draw(st.sampled_from(["acl", "acl", "platform"]))
    if level == "ace" and not any(it["t"] == "ace" for it in acl["items"]):
        level = "acl"
    if level in ("ace", "acegroup"):
        acl["group_by"] = ""
    case = {"acl": acl, "level": level, "pick": draw(st.integers(0, 7))}
    if level == "acl" and draw(st.sampled_from(range(3))) == 1:
        case["again"] = G.to_native(draw(G.ace_st("ios", kmax=2, noise=False, seq=False, neq_multi=False,
                                                  protos=st.sampled_from([6, 6, 17]))), "ios")
        if draw(st.sampled_from(range(4))) > 0:
            vals = draw(st.lists(st.sampled_from([22, 53, 80, 123, 443, 8080]), min_size=2, max_size=3, unique=True))
            case["again"][draw(st.sampled_from(["sp", "dp"]))] = {"op": "eq", "v": vals, "nm": [-1] * len(vals)}
    if level in ("acl", "platform") and acl["group_by"] and draw(st.booleans()):
        case["tail"] = G.to_native(draw(G.ace_st("ios", kmax=2, noise=False, seq=False, protos=PORTY)), "ios")
    return case


SUBS = [Sub("split", judge, strategy=case_st, quick=2500, thorough=80000, shards_thorough=48)]

# coverage-guided twins (fuzz/fuzz_hyp.py): atheris mutates the bytes Hypothesis decodes into cases of the same strategy
SUBS += [__import__("lib.harness", fromlist=["x"]).cov_sub('C19', s_) for s_ in list(SUBS) if s_.name in ('split',)]


def _rec(**kw):
    any_ = {"k": "any", "b": 0, "w": R.ALL1}
    r = {"seq": 0, "action": "permit", "proto": 6, "pn": 0, "src": any_, "dst": any_, "sp": None, "dp": None,
         "flags": [], "logs": [], "opq": [], "ws": None}
    r.update(kw)
    return r


KNOWN_WITNESS["neq-multiport-split"] = ("split", {
    "acl": {"platform": "ios", "name": "T", "type": "extended", "group_by": "", "indent": " ", "prefix": "= ",
            "items": [{"t": "ace", "rec": _rec(dp={"op": "neq", "v": [1, 2], "nm": [-1, -1]})}]},
    "level": "acl", "pick": 0})

MANIFEST = {
    "technique": "translation validation by property-based testing: each generated IOS program is split by the library and the output is validated against the input entry by entry with an independent reader (operand product, inclusion, union, in-place position)",
    "text": "translation validation: for every generated program the split output was checked against its input (runs in place, single operand per side, complete duplicate-free operand product, other fields equal, unsplit entries untouched); thousands (quick) / 80 000 (thorough) programs at four levels (Ace, AceGroup, Acl, Acl.platform='nxos')",
    "note": "trusted: lib/refsem.py; KNOWN FINDING neq-multiport-split: 'neq a b' is split into 'neq a','neq b' whose union is every port - pinned by the existing tests, reported as KNOWN-FINDING, all other aspects stay enforced",
}
MANIFEST["engine"] = MANIFEST.get("engine", "hypothesis") + " + atheris (coverage-guided twins of the Hypothesis sub-checks, fuzz/fuzz_hyp.py: 2 jobs x 8 s quick, 8 jobs x 200 s thorough)"
MANIFEST["technique"] += "; plus coverage-guided fuzzing of the same strategies (atheris/libFuzzer mutates the byte stream Hypothesis decodes into cases, the same oracle runs inside the target, findings are re-judged outside it)"
